"""C05 - Flattening never changes what later flattening produces.

Spec: spec/ClassTreeFlatten.tla
  intended cfg  (CopyOnLookup = TRUE): ResultIsFunctionOfClass, SourceUnchanged, SeenIsConflict hold
  as-built cfg  (CopyOnLookup = FALSE, what tree.flatten does on the pinned tree): TLC must find a
                counterexample; the complete as-built state graph (quotient by the set of rewritten
                source objects) is logged and every one of its transitions is replayed.
Binding A: every history is replayed on ONE real parsed tree; after every request the outcome
           (tree.flatten result as JSON text, casadi Model signature, sympy / xml source) is compared
           with the same request on a fresh parse - the differential oracle is exactly the property.
           Second corpus: every class of every test/models/*.mo with histories from the same walker.
           CLI clause: tools/compiler.py main() with several -m versus each -m alone.
The spec's prediction (did the request read a source object rewritten by an earlier in-place
flatten?) only selects the tag of a violation; it never creates one.
"""
import glob
import json
import os
import random
import shutil
import tempfile

from vf import tlc, graph, classtree as ct
from vf.core import MachineryError, REPO
from vf.par import pmap

META = {
    "ready": True,
    "category": "model_checking",
    "technique": "TLA+ spec (ClassTreeFlatten.tla) of the parsed class graph and the in-place rewrites of instance "
                 "building, model-checked by TLC (intended and as-built configs); every transition of the as-built "
                 "state graph, all request histories to depth 2-3 and random walks replayed on real parsed trees with a "
                 "fresh-parse differential oracle; same walker over every class of test/models; CLI -m lists",
    "text": "TLC checks on the spec that with copy-on-lookup every request's result is a function of the class alone "
            "(ResultIsFunctionOfClass, action property SourceUnchanged) for all histories <= 3 over 6 library shapes x 4 "
            "entry points, that the operational rewritten-object bookkeeping equals the declarative read-after-write "
            "conflict (SeenIsConflict), and that the as-built variant violates the property. The complete as-built "
            "state graph (TR-log) is replayed on real trees: after every flatten/casadi/sympy/xml request the full result "
            "is compared with the same request on a fresh parse. The same walker drives every class of every "
            "test/models/*.mo, and tools/compiler.py main() is run with several -m versus each alone.",
    "note": "Trusted: TLC, the ~60-line renderer from the spec's library records to Modelica text, the observers that "
            "serialise results (Node.to_json, casadi variable lists + MX strings). Results are only compared with results "
            "of the same code on a fresh parse; two raising outcomes are equal if the exception types are equal. "
            "Requests whose fresh outcome is not reproducible are skipped and counted. Bounds: 6 library shapes of 3-6 "
            "classes, histories exhaustively to depth 2 (all entry points) / 3 (flatten), random walks to length 8; "
            "test/models: all ordered pairs of classes per file for flatten, sampled pairs for the back ends.",
    "design_ref": "DESIGN.md section 3, C05",
}

OBS = {"flatten": "flatten-result", "casadi": "casadi-model", "sympy": "sympy-source", "xml": "xml-source"}
SPEC_TAINT = "spec:reads-rewritten-source"
SPEC_CLEAN = "spec:no-rewritten-source-read"
DYN_TAINT = "dyn:source-tree-rewritten"
DYN_CLEAN = "dyn:source-unchanged"

# ---------------------------------------------------------------------------------------------
# worker side (forked): globals set by the parent before pmap
_G = {}
_fresh_memo = {}


def _fresh(key, text, cls, be):
    """outcome of the request on a fresh parse, computed twice; None if not reproducible"""
    k = (key, cls, be)
    if k not in _fresh_memo:
        a = ct.request(ct.fresh_tree(text), cls, be)
        b = ct.request(ct.fresh_tree(text), cls, be)
        _fresh_memo[k] = a if ct.same_outcome(a, b) else None
    return _fresh_memo[k]


def run_history(key, text, reqs, sabotage=None):
    """reqs: list of [cls, be].  One parsed tree for the whole history.  Returns per-step dicts.
    `rewritten` (is the source tree different from its pristine state?) is auxiliary state: it is looked at only
    when a request differs from the fresh parse (to tag the violation) and at the end of the history (drift)."""
    tree = ct.fresh_tree(text)
    pristine = ct.tree_json(tree)

    def rewritten():
        try:
            return ct.tree_json(tree) != pristine
        except Exception:  # a rewritten tree may not even serialise any more
            return True

    steps = []
    for k, (cls, be) in enumerate(reqs):
        fresh = _fresh(key, text, cls, be)
        got = ct.request(tree, cls, be, scribble=True)   # the returned flat tree is the caller's: overwrite it
        st = {"cls": cls, "be": be, "got": ct.short(got), "fresh": ct.short(fresh) if fresh else None,
              "same": True if fresh is None else ct.same_outcome(got, fresh),
              "unstable": fresh is None, "msg": got[2][:200] if got[0] == "exc" else ""}
        if not st["same"]:
            st["rewritten"] = rewritten()
        steps.append(st)
        if sabotage is not None and k == sabotage:
            # binding self-test: the HARNESS rewrites the source tree (drops the last own component of the class)
            c = tree.classes[cls]
            if c.symbols:
                del c.symbols[list(c.symbols)[-1]]
    if steps:
        steps[-1]["rewritten_at_end"] = rewritten()
    return steps


def _w_spec(item):
    libid, reqs = item
    lib = _G["libs"][libid]
    return run_history("lib%d" % libid, lib["text"], reqs)


def _w_model(item):
    path, reqs = item
    with open(path, encoding="utf-8") as f:
        text = f.read()
    return run_history(path, text, reqs)


_cli_memo = {}


def _cli_flatten_outcomes(res, models):
    """per requested model, in request order: did main() report an error for it?  `-v` gives the delimiters
    ('Flattening X ...' / 'Generating model for X ...'); error lines: 'Error flattening X', 'Problem translating X to
    SymPy', 'Error writing ...'."""
    out = []
    cur = None
    for lvl, msg in res["log"]:
        start = None
        if msg.startswith("Flattening ") and msg.endswith(" ..."):
            start = msg[len("Flattening "):-4]
        elif msg.startswith("Generating model for ") and msg.endswith(" ..."):
            start = msg[len("Generating model for "):-4]
        if start is not None:
            if cur is not None:
                out.append(cur)
            cur = [start, "ok"]
        elif cur is not None and (msg.startswith("Error flattening ") or msg.startswith("Problem translating ")
                                  or msg.startswith("Error writing ")):
            cur[1] = "error"
    if cur is not None:
        out.append(cur)
    return out


def _w_cli(item):
    libid, models, target = item
    lib = _G["libs"][libid]
    scratch = _G["scratch"]
    ct.private_cache_env(scratch)
    d = os.path.join(scratch, "cli_%d_%d" % (os.getpid(), libid))
    os.makedirs(d, exist_ok=True)
    path = os.path.join(d, lib["name"] + ".mo")
    if not os.path.exists(path):
        with open(path, "w") as f:
            f.write(lib["text"])
    return cli_compare(path, models, target, d, ("lib%d" % libid))


def cli_compare(path, models, target, workdir, key):
    def run(ms):
        out = os.path.join(workdir, "out_%s" % target)
        shutil.rmtree(out, ignore_errors=True)
        os.makedirs(out)
        argv = [path, "-v"]
        for m in ms:
            argv += ["-m", m]
        if target != "flatten":
            argv += ["-t", target, "-o", out]
        res = ct.run_cli(argv)
        files = {}
        for fn in sorted(os.listdir(out)):
            with open(os.path.join(out, fn), errors="replace") as f:
                files[fn] = ct.digest(f.read())
        return {"status": res["status"], "per_model": _cli_flatten_outcomes(res, ms), "files": files}

    alone = []
    for m in models:
        k = (key, m, target)
        if k not in _cli_memo:
            _cli_memo[k] = run([m])
        alone.append(_cli_memo[k])
    together = run(models)
    if any(not isinstance(a["status"], int) for a in alone):
        return {"skipped": "a single -m run does not return normally (C26 territory)", "models": models, "target": target}
    bad = []
    want_status = sum(a["status"] for a in alone)
    if together["status"] != want_status:
        bad.append("exit status %r, sum of the single runs %r" % (together["status"], want_status))
    want = [a["per_model"][0] if a["per_model"] else [m, "not-attempted"] for a, m in zip(alone, models)]
    if together["per_model"] != want:
        bad.append("per-model outcomes %r, alone %r" % (together["per_model"], want))
    if target != "flatten":
        want_files = {}
        for a in alone:
            want_files.update(a["files"])
        if together["files"] != want_files:
            bad.append("generated files %r, alone %r" % (together["files"], want_files))
    return {"models": models, "target": target, "bad": bad, "together": together["status"], "alone": want_status}


# ---------------------------------------------------------------------------------------------
def _reqs_of(g, path):
    return [[s[1]["cls"], s[1]["be"]] for s in g.steps(path)]


def _spec_of(g, path):
    return [{"seen": s[1]["seen"], "mechs": s[1]["mechs"]} for s in g.steps(path)]


def spec_violation(ctx, lib, reqs, spec, steps, k, corpus="spec"):
    st = steps[k]
    seen = spec[k]["seen"] if spec else []
    tags = ["corpus:" + corpus, "be:" + st["be"]]
    if seen:
        tags += [SPEC_TAINT] + ["mech:" + m for m in spec[k]["mechs"]]
    else:
        tags += [SPEC_CLEAN]
    rec = {"observable": OBS[st["be"]], "tags": tags,
           "exception_type": st["got"].split(":", 1)[1] if st["got"].startswith("exc:") else None,
           "detail": "library %s, history %s: request %d (%s via %s) gives %s %s, a fresh parse gives %s" % (
               lib["name"], json.dumps(reqs[:k + 1]), k + 1, st["cls"], st["be"], st["got"], st["msg"], st["fresh"])}
    ctx.violation(rec, {"kind": "spec-lib", "lib_name": lib["name"], "text": lib["text"], "history": reqs[:k + 1],
                        "tags": tags})


def run(ctx):
    thorough = ctx.tier == "thorough"
    procs = int(os.environ.get("VERIF_PROCS", "16"))
    # ---- 1. TLC: the spec satisfies the property (intended), the as-built variant does not ----------
    r = tlc.run("ClassTreeFlatten", "ClassTreeFlatten_intended.cfg", workers=min(procs, 8))
    ctx.add_tlc(r, "intended: ResultIsFunctionOfClass, SeenIsConflict, ShapesOK, SourceUnchanged; histories <= 3")
    if r.violated:
        raise MachineryError("intended spec violates %s\n%s" % (r.violated, r.cex[:2000]))
    r = tlc.run("ClassTreeFlatten", "ClassTreeFlatten_asbuilt.cfg", workers=1)
    ctx.add_tlc(r, "as-built (copy=False): counterexample expected")
    if "ResultIsFunctionOfClass" not in r.violated:
        raise MachineryError("as-built spec does not violate the property - the as-built switch is vacuous")
    ctx.extra["asbuilt_counterexample"] = r.cex[:1500]
    r = tlc.run("ClassTreeFlatten", "ClassTreeFlatten_asbuilt_closure.cfg" if thorough else "ClassTreeFlatten_asbuilt_closure_q.cfg",
                workers=min(procs, 8))
    ctx.add_tlc(r, "as-built: operational touched set = declarative read-after-write conflict (SeenIsConflict)")
    if r.violated:
        raise MachineryError("as-built spec violates %s\n%s" % (r.violated, r.cex[:2000]))
    # ---- 2. state graphs with TR-log ---------------------------------------------------------------
    rg = tlc.run("ClassTreeFlatten", "ClassTreeFlatten_graph.cfg", workers=1)
    ctx.add_tlc(rg, "as-built state graph (quotient by rewritten-object set), TR-log")
    ri = tlc.run("ClassTreeFlatten", "ClassTreeFlatten_graph_intended.cfg", workers=1)
    ctx.add_tlc(ri, "intended state graph, TR-log")
    if rg.violated or ri.violated:
        raise MachineryError("graph runs report violations: %s %s" % (rg.violated, ri.violated))
    libs = {}
    for l in rg.tr("LIB"):
        l["text"] = ct.render_flatten_lib(l)
        libs[l["id"]] = l
    if len(libs) < 11:
        raise MachineryError("expected 11 library shapes, got %d" % len(libs))
    inits = [{"lib": i, "touched": []} for i in sorted(libs)]
    g = graph.Graph(rg.tr(), init=inits)
    gi = graph.Graph(ri.tr(), init=inits)
    if gi.n_states() != len(libs):
        raise MachineryError("intended graph has %d states for %d libraries: the source tree changes" % (gi.n_states(), len(libs)))
    # histories: tour of every as-built transition, all paths to depth 2 (all entry points), depth 3 (flatten only),
    # random walks to length 8
    tour, covered = g.tour(max_len=8)
    if len(covered) != g.n_edges():
        raise MachineryError("tour covered %d of %d transitions" % (len(covered), g.n_edges()))
    # all ordered pairs of requests; the second one through flatten or through the same entry point as the first (the
    # other entry-point combinations are covered by the tour, which visits every request in every as-built state)
    depth2 = [p for p in g.all_paths(2, limit=200000)
              if len(p) < 2 or g.edges[p[1]][1]["be"] in ("flatten", g.edges[p[0]][1]["be"])]
    g3 = graph.Graph([e for e in rg.tr() if e["act"]["be"] in (("flatten", "sympy") if thorough else ("flatten",))], init=inits)
    gf = graph.Graph([e for e in rg.tr() if e["act"]["be"] == "flatten"], init=inits)
    depth3 = g3.all_paths(3, limit=200000)
    walks = g.random_walks(100 if not thorough else 3000, 8, ctx.seed + 5)
    items, meta = [], []
    for kind, gg, plist in (("tour", g, tour), ("depth2", g, depth2), ("depth3", g3, depth3), ("walk", g, walks)):
        for p in plist:
            st = gg.steps(p)
            libid = st[0][0]["lib"]
            items.append((libid, [[s[1]["cls"], s[1]["be"]] for s in st]))
            meta.append((kind, [{"seen": s[1]["seen"], "mechs": s[1]["mechs"]} for s in st]))
    _G["libs"] = libs
    scratch = tempfile.mkdtemp(prefix="c05_")
    _G["scratch"] = scratch
    try:
        return _run_rest(ctx, thorough, procs, libs, g, gf, items, meta, scratch)
    finally:
        shutil.rmtree(scratch, ignore_errors=True)


def _run_rest(ctx, thorough, procs, libs, g, gf, items, meta, scratch):
    # ---- 3. spec libraries agree with the rendered Modelica (reference semantics vs. fresh flatten) -----
    from pymoca import tree as ptree, ast
    ref_checked = 0
    for lib in libs.values():
        for c in lib["classes"]:
            if c.get("bad"):
                continue
            want = {x["name"]: (x["attrs"] if isinstance(x["attrs"], dict) else {}) for x in lib["flat"][c["name"]]}
            try:
                got, _ = ct.flat_leaves(ptree.flatten(ct.fresh_tree(lib["text"]), ast.ComponentRef.from_string(c["name"])))
            except Exception as e:
                ctx.note_drift("spec-library-class-not-flattenable:%s.%s:%s" % (lib["name"], c["name"], type(e).__name__))
                continue
            ref_checked += 1
            got = {k: {a: (int(v) if float(v) == int(v) else v) for a, v in d.items()} for k, d in got.items()}
            if got != want:
                ctx.note_drift("spec-flat-reference-differs:%s.%s" % (lib["name"], c["name"]))
                ctx.extra.setdefault("reference_mismatch", []).append({"lib": lib["name"], "cls": c["name"], "spec": want, "code": got})
    if ref_checked < 20:
        raise MachineryError("only %d classes of the spec libraries flatten on a fresh parse - renderer broken?" % ref_checked)
    ctx.extra["reference_semantics_classes_compared"] = ref_checked
    # ---- 4. replay the spec histories ---------------------------------------------------------------
    results = pmap(_w_spec, items, procs)
    cov = {"kinds": {}, "be": {}, "lib": {}, "mech_predicted": {}, "steps": 0, "differs": 0, "unstable": 0}
    pred = {"tainted_differs": 0, "tainted_same": 0, "clean_differs": 0, "clean_same": 0}
    for (libid, reqs), (kind, spec), steps in zip(items, meta, results):
        lib = libs[libid]
        ctx.traces += 1
        cov["kinds"][kind] = cov["kinds"].get(kind, 0) + 1
        cov["lib"][lib["name"]] = cov["lib"].get(lib["name"], 0) + 1
        reported = False
        for k, st in enumerate(steps):
            cov["steps"] += 1
            cov["be"][st["be"]] = cov["be"].get(st["be"], 0) + 1
            for m in spec[k]["mechs"]:
                cov["mech_predicted"][m] = cov["mech_predicted"].get(m, 0) + 1
            if st["unstable"]:
                cov["unstable"] += 1
                continue
            tainted = bool(spec[k]["seen"])
            pred[("tainted_" if tainted else "clean_") + ("same" if st["same"] else "differs")] += 1
            if not st["same"] and not reported:
                cov["differs"] += 1
                spec_violation(ctx, lib, reqs, spec, steps, k)
                reported = True   # later steps of a history that already diverged are not independent evidence
        if steps and steps[-1]["rewritten_at_end"]:
            ctx.note_drift("source-tree-rewritten-in-place")
        if kind == "tour":
            ctx.sample({"kind": "spec-history", "library": lib["name"], "requests": reqs[:4],
                        "observed": [[s["got"], s["fresh"], s["same"]] for s in steps[:4]]}, limit=3)
    for be in ("flatten", "casadi", "sympy", "xml"):
        if not cov["be"].get(be):
            raise MachineryError("vacuous: entry point %s never replayed" % be)
    for m in ("conn-str", "ext-strip", "frozen-inst"):
        if not cov["mech_predicted"].get(m):
            raise MachineryError("vacuous: as-built mechanism %s never reached in the replayed graph" % m)
    ctx.extra["spec_corpus"] = cov
    ctx.extra["asbuilt_prediction_vs_code"] = pred
    # ---- 5. CLI clause: several -m versus each alone --------------------------------------------------
    cli_items = []
    seen_cli = set()
    failing_libs = {i for i, l in libs.items() if any(c.get("bad") for c in l["classes"])}
    for p in gf.all_paths(3, limit=200000):
        st = gf.steps(p)
        libid = st[0][0]["lib"]
        models = [s[1]["cls"] for s in st]
        # libraries with failing models / unknown names: every order up to 3 models, flatten-only AND -t sympy (a failing
        # model at every position); other libraries: up to 2 (thorough: 3) models flatten-only, sympy for repeats / pairs
        if libid not in failing_libs and len(models) > (3 if thorough else 2):
            continue
        spec = [{"seen": s[1]["seen"], "mechs": s[1]["mechs"]} for s in st]
        for target in ("flatten", "sympy"):
            if target == "sympy" and libid not in failing_libs and (len(models) > 2 or not thorough and len(set(models)) > 1):
                continue
            key = (libid, tuple(models), target)
            if key not in seen_cli:
                seen_cli.add(key)
                cli_items.append(((libid, models, target), spec))
    cli_res = pmap(_w_cli, [c[0] for c in cli_items], procs)
    ncli = {"runs": 0, "skipped": 0, "bad": 0}
    for ((libid, models, target), spec), res in zip(cli_items, cli_res):
        if "skipped" in res:
            ncli["skipped"] += 1
            continue
        ncli["runs"] += 1
        ctx.traces += 1
        if res["bad"]:
            ncli["bad"] += 1
            tainted = any(s["seen"] for s in spec)
            tags = ["corpus:spec", "cli:" + target, SPEC_TAINT if tainted else SPEC_CLEAN]
            ctx.violation({"observable": "cli-outcome", "tags": tags, "exception_type": None,
                           "detail": "library %s: compiler.py -m %s (%s): %s" % (libs[libid]["name"], " -m ".join(models), target, "; ".join(res["bad"]))},
                          {"kind": "cli", "lib_name": libs[libid]["name"], "text": libs[libid]["text"], "models": models,
                           "target": target, "tags": tags})
    if ncli["runs"] < 50:
        raise MachineryError("vacuous: only %d CLI comparisons ran" % ncli["runs"])
    nfail = sum(1 for (it, _), res in zip(cli_items, cli_res) if "skipped" not in res and res.get("alone", 0) > 0 and len(it[1]) > 1)
    if nfail < 50:
        raise MachineryError("vacuous: only %d multi-model CLI runs contain a failing model" % nfail)
    ncli["multi_model_runs_with_failing_model"] = nfail
    ctx.extra["cli"] = ncli
    ctx.sample({"kind": "cli", "argv": ["<lib>.mo", "-v", "-m", cli_items[0][0][1][0], "-m", cli_items[0][0][1][-1]],
                "result": {k: v for k, v in cli_res[0].items() if k != "models"}}, limit=4)
    # ---- 6. second corpus: every class of every test/models/*.mo ---------------------------------------
    mitems, mmeta = model_corpus(ctx, thorough)
    mres = pmap(_w_model, mitems, procs)
    mc = {"files": len({i[0] for i in mitems}), "histories": len(mitems), "steps": 0, "differs": 0, "unstable": 0, "be": {}}
    for (path, reqs), kind, steps in zip(mitems, mmeta, mres):
        ctx.traces += 1
        for k, st in enumerate(steps):
            mc["steps"] += 1
            mc["be"][st["be"]] = mc["be"].get(st["be"], 0) + 1
            if st["unstable"]:
                mc["unstable"] += 1
                continue
            if not st["same"]:
                mc["differs"] += 1
                tags = ["corpus:test-models", "be:" + st["be"], DYN_TAINT if st["rewritten"] else DYN_CLEAN]
                rel = os.path.relpath(path, REPO)
                ctx.violation({"observable": OBS[st["be"]], "tags": tags,
                               "exception_type": st["got"].split(":", 1)[1] if st["got"].startswith("exc:") else None,
                               "detail": "%s, history %s: request %d gives %s %s, a fresh parse gives %s" % (
                                   rel, json.dumps(reqs[:k + 1]), k + 1, st["got"], st["msg"], st["fresh"])},
                              {"kind": "model-file", "file": rel, "history": reqs[:k + 1], "tags": tags})
                break
    if mc["files"] < 40 or mc["steps"] < 1000:
        raise MachineryError("vacuous: test-model corpus too small (%r)" % mc)
    ctx.extra["test_model_corpus"] = mc
    # ---- 7. binding self-test: a source tree rewritten by the harness itself must be noticed -------------
    lib = libs[5]
    steps = run_history("selftest", lib["text"], [["Mid", "flatten"], ["Mid", "flatten"], ["Use", "flatten"]], sabotage=0)
    if steps[1]["same"] or steps[2]["same"] or not steps[1]["rewritten"]:
        raise MachineryError("binding self-test failed: a sabotaged source tree was not noticed: %r" % (steps,))
    ctx.assumptions += [
        "two raising outcomes count as equal when the exception types are equal (messages are not compared)",
        "requests whose outcome on a fresh parse is not reproducible are skipped (%d spec, %d test-model steps)" % (cov["unstable"], mc["unstable"]),
        "CLI histories in which a single -m run ends with an uncaught exception are left to C26 (%d skipped)" % ncli["skipped"],
    ]
    return {"exhaustive": True}


def model_corpus(ctx, thorough):
    """histories over the classes of each test model file, produced by the same graph walker"""
    rng = random.Random(ctx.seed + 11)
    files = sorted(glob.glob(os.path.join(REPO, "test", "models", "*.mo")))
    items, meta = [], []
    for path in files:
        try:
            with open(path, encoding="utf-8") as f:
                text = f.read()
            from pymoca import parser
            t = parser.parse(text, bypass_cache=True)
        except Exception:
            t = None
        if t is None:
            continue
        classes = ct.all_class_paths(t)
        if not classes:
            continue
        fs = {"file": os.path.basename(path)}
        entries = [{"src": fs, "act": {"cls": c, "be": be}, "dst": fs} for c in classes for be in ("flatten", "casadi", "sympy", "xml")]
        gg = graph.Graph(entries, init=[fs])
        gfl = graph.Graph([e for e in entries if e["act"]["be"] == "flatten"], init=[fs])
        for p in gfl.all_paths(2, limit=100000):          # every ordered pair of classes, flatten
            items.append((path, [[s[1]["cls"], s[1]["be"]] for s in gfl.steps(p)]))
            meta.append("pairs-flatten")
        if thorough:
            gb = graph.Graph([e for e in entries if e["act"]["be"] in ("casadi", "sympy")], init=[fs])
            allp = gb.all_paths(2, limit=100000)
            if len(allp) > 400:
                allp = rng.sample(allp, 400)
            for p in allp:
                items.append((path, [[s[1]["cls"], s[1]["be"]] for s in gb.steps(p)]))
                meta.append("pairs-backends")
        for be in ("casadi", "sympy", "xml"):                # repeat of every class through each back end
            for c in classes:
                items.append((path, [[c, "flatten" if be == "xml" else be], [c, be]]))
                meta.append("repeat-" + be)
        for p in gg.random_walks(2 if not thorough else 10, 5, rng.randrange(1 << 30)):
            items.append((path, [[s[1]["cls"], s[1]["be"]] for s in gg.steps(p)]))
            meta.append("walk")
    return items, meta


# ---------------------------------------------------------------------------------------------
def replay(ctx, sc):
    recs = []
    if sc["kind"] == "spec-lib":
        steps = run_history("replay", sc["text"], sc["history"])
        for k, st in enumerate(steps):
            if not st["unstable"] and not st["same"]:
                recs.append({"observable": OBS[st["be"]], "tags": sc["tags"],
                             "exception_type": st["got"].split(":", 1)[1] if st["got"].startswith("exc:") else None,
                             "detail": "request %d (%s via %s) gives %s %s, a fresh parse gives %s" % (
                                 k + 1, st["cls"], st["be"], st["got"], st["msg"], st["fresh"])})
                break
    elif sc["kind"] == "model-file":
        path = os.path.join(REPO, sc["file"])
        with open(path, encoding="utf-8") as f:
            text = f.read()
        steps = run_history("replay", text, sc["history"])
        for k, st in enumerate(steps):
            if not st["unstable"] and not st["same"]:
                tags = [t for t in sc["tags"] if not t.startswith("dyn:")] + [DYN_TAINT if st["rewritten"] else DYN_CLEAN]
                recs.append({"observable": OBS[st["be"]], "tags": tags,
                             "exception_type": st["got"].split(":", 1)[1] if st["got"].startswith("exc:") else None,
                             "detail": "request %d gives %s %s, a fresh parse gives %s" % (k + 1, st["got"], st["msg"], st["fresh"])})
                break
    elif sc["kind"] == "cli":
        scratch = tempfile.mkdtemp(prefix="c05r_")
        try:
            ct.private_cache_env(scratch)
            path = os.path.join(scratch, sc["lib_name"] + ".mo")
            with open(path, "w") as f:
                f.write(sc["text"])
            res = cli_compare(path, sc["models"], sc["target"], scratch, "replay")
            if res.get("bad"):
                recs.append({"observable": "cli-outcome", "tags": sc["tags"], "exception_type": None,
                             "detail": "compiler.py -m %s (%s): %s" % (" -m ".join(sc["models"]), sc["target"], "; ".join(res["bad"]))})
        finally:
            shutil.rmtree(scratch, ignore_errors=True)
    else:
        raise MachineryError("unknown scenario kind %r" % sc.get("kind"))
    return recs
