\* graph (thorough): three files, three option sets
CONSTANTS K = 2
          Editable = {"M","L1"}
          Addable = {"A"}
          OptNames = {"O1","O2","O4"}
          Modes = {"cache"}
          Versions = {1}
          Holds = {FALSE}
          MaxClock = 1000000
          LibFoldersInKey = TRUE
          Beyond = {}
          OptionValuesCompared = TRUE
          FreshLibHandles = TRUE
INIT Init
NEXT Next
VIEW View
ACTION_CONSTRAINT Log
CHECK_DEADLOCK FALSE
