\* family "index" (thorough bounds) with the AS-BUILT switches: the operational model behaves as the pinned code.
\* (Since the fixes 292c263, 2299815, 3649cfa, 0a28798, 49d7920 landed in /repo only IfStmtSequential is still FALSE.)
\* No property invariant is listed: each PROG line carries the TLC verdict (model.agrees) and the rows the
\* as-built model predicts; the harness replays the disagreeing programs on the code (they must fail there too)
\* and compares the predicted rows with the code's residual (model drift otherwise).
CONSTANTS Family = "index" Tier = "thorough"
  DivMapped = TRUE SlicesRangeChecked = TRUE LoopIndexRangeChecked = TRUE PartialSubscriptIsRow = TRUE CallFirstOutput = TRUE StepRangeParsed = TRUE RangeStopExact = TRUE IfStmtSequential = TRUE ExploreOptions = FALSE
INIT Init
NEXT Next
INVARIANT WellTyped
CHECK_DEADLOCK FALSE
