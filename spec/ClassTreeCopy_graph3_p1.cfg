\* intended state graph, quotient by the value state, 3 trees, packaged library, universe p1: every transition logged (TR)
CONSTANTS DeepCopyRebindsParents = TRUE CopyHookBoundToCopy = TRUE FlattenCopiesTop = FALSE
          Lib = "pkg" Universe = "p1" MaxTrees = 3 MaxOps = 1000000
INIT Init
NEXT Next
VIEW ViewVal
ACTION_CONSTRAINT Log
INVARIANT PointerSemanticsIsValueSemantics
CHECK_DEADLOCK FALSE
