"""Run logic shared by the checks C14 and C15 (same TLC runs, same real executions; each check reports
the observables its own property names).  See vf/checks/C14.py for the description."""
import json
import os
import random

from vf import par
from vf import simplify_lib as L
from vf.core import MachineryError

# observable -> property
C14_OBS = {"residual", "initial-residual", "not-unique", "alias-sign", "constant-value", "alias-relation"}
C15_OBS = {"balance", "residual-function", "initial-residual-function", "trace-balance", "trace-selfcontained"}
REJ_OBS = {"Balance": "trace-balance", "SelfContained": "trace-selfcontained",
           "Consistent": "alias-relation", "Closure": "alias-relation", "Alias": "alias-relation"}
MX = {"expand_mx", "allow_derivative_aliases"}
# tags of the blueprint that describe what a pass works on (the class of a violation = pass + these tags)
PASS_TAGS = {"resolve_parameter_values": ("par:",), "replace_parameter_expressions": ("par:",),
             "replace_constant_expressions": ("par:",), "replace_parameter_values": ("par:",),
             "replace_constant_values": ("par:",), "eliminate_constant_assignments": ("cst:",),
             "eliminable_variable_expression": ("elim:",), "detect_aliases": ("ali:",),
             "factor_and_simplify_equations": ("row:",), "reduce_affine_expression": ("has:",)}
_PROGS = []


def bpkey(bp):
    return json.dumps(bp, sort_keys=True)


def option_pool(rng, n):
    """option subsets: all/none, every single rewriting option, all but one, then seeded random subsets
    (auxiliary options toggled at random; iterative simplification in about one of six)"""
    pool = [set(L.MAIN9) | MX, set(MX)]
    pool += [{o} | MX for o in L.MAIN9]
    pool += [(set(L.MAIN9) - {o}) | MX for o in L.MAIN9]
    while len(pool) < n:
        s = {o for o in L.MAIN9 if rng.random() < 0.5}
        if rng.random() < 0.85:
            s.add("expand_mx")
        if rng.random() < 0.8:
            s.add("allow_derivative_aliases")
        if rng.random() < 0.4:
            s.add("expand_vectors")
        if rng.random() < 0.4:
            s.add("resolve_parameter_values")
        if rng.random() < 0.17:
            s.add("iterative_simplification")
        pool.append(s)
    return pool


def classify(prog, opts, obs):
    """observation of one real run -> (tally key or None, list of (observable, detail))"""
    if obs["failure"]:
        f = obs["failure"]
        return "reported-failure:%s:%s" % (f["stage"], f["exception_type"]), []
    warned = any(any(w in m for w in L.FAILURE_WARNINGS) for m in obs["warnings"])
    c = obs["checks"]
    bad = []
    required = prog["affine"] or "reduce_affine_expression" not in opts
    if c["balance_before"] != c["balance_after"]:
        bad.append(("balance", "states+alg_states-equations was %d before and is %d after simplify" % (
            c["balance_before"], c["balance_after"])))
    if c["residual_function"] not in ("ok", None):
        bad.append(("residual-function", "dae_residual_function cannot be built: %s" % c["residual_function"]))
    if c["initial_residual_function"] not in ("ok", None):
        bad.append(("initial-residual-function",
                    "initial_residual_function cannot be built: %s" % c["initial_residual_function"]))
    if c["alias_bad"]:
        bad.append(("alias-sign", "alias relation records [canonical, alias, sol[canonical], sol[alias]] = %s" % c["alias_bad"][:3]))
    if c["const_bad"] or c["param_bad"]:
        bad.append(("constant-value", "recorded value differs from the solution: %s" % (c["const_bad"] + c["param_bad"])[:3]))
    tally = None
    if c["unprojectable"]:
        tally = "unprojectable"
    elif not required:
        tally = "precondition-not-met:non-affine"
    else:
        if c["residual"] is not None and any(abs(x) > 1e-9 for x in c["residual"]):
            bad.append(("residual", "dae residual at the projected solution = %s" % c["residual"]))
        if c["initial_residual"] is not None and any(abs(x) > 1e-9 for x in c["initial_residual"]):
            bad.append(("initial-residual", "initial residual at the projected solution = %s" % c["initial_residual"]))
        if c["rank"] == "non-finite":
            bad.append(("not-unique", "Jacobian at the solution has non-finite entries"))
        elif c["rank"] is not None and c["n_unknowns"] is not None and c["rank"] != c["n_unknowns"]:
            bad.append(("not-unique", "Jacobian wrt %d unknowns (der_states+alg_states) has rank %d (%d equations)" % (
                c["n_unknowns"], c["rank"], c["n_eq"])))
    if warned:      # the code reported failure by a warning: nothing is required of the result (tallied, with what it was)
        return "reported-failure:warning(result %s)" % ("wrong: " + ",".join(sorted({o for o, _ in bad})) if bad else "correct"), []
    return tally, bad


def first_bad_pass(prog, opts, observable):
    """re-run with per-pass evaluation and find the pass after which `observable` first fails"""
    obs = L.run_program(prog, set(opts), per_pass_eval=True, want_trace=True)
    prev_bal = None
    events = [e for e in obs["trace"] if e["ev"] in ("begin", "pass")]
    it = 1
    k = 0
    for e in events:
        if e["ev"] == "begin":
            prev_bal = len(e["S"]) + len(e["A"]) - e["neq"]
            continue
        name = e["name"]
        ch = obs["perpass"][k][1] if obs.get("perpass") and k < len(obs["perpass"]) else None
        k += 1
        failing = False
        if observable == "balance":
            failing = len(e["S"]) + len(e["A"]) - e["neq"] != prev_bal
        elif ch is not None:
            fake = {"failure": None, "warnings": [], "checks": dict(ch, balance_before=0, balance_after=0)}
            _, bad = classify(prog, opts, fake)
            failing = any(o == observable for o, _ in bad)
        if failing:
            return name, it
        if name == L.PASSES[-1]:
            it += 1
    return None, it


def shape_tags(prog, opts, pass_name, it):
    tags = []
    if pass_name:
        pre = PASS_TAGS.get(pass_name, ())
        tags = [t for t in prog.get("tags", []) if t.startswith(pre)] if pre else []
        tags.append("pass:" + pass_name)
    if "iterative_simplification" in opts and it > 1:
        tags.append("iter:2+")
    return sorted(set(tags))


def make_records(prog, opts, bad, mine):
    recs = []
    for observable, detail in bad:
        if observable not in mine:
            continue
        pname, it = first_bad_pass(prog, opts, observable)
        recs.append({"observable": observable, "tags": shape_tags(prog, opts, pname, it), "exception_type": None,
                     "detail": "%s | bp=%s opts=%s" % (detail, json.dumps(prog["bp"], sort_keys=True), sorted(opts))})
    return recs


def _run_pair(item):
    i, opts = item
    prog = _PROGS[i]
    obs = L.run_program(prog, set(opts))
    tally, bad = classify(prog, opts, obs)
    fin = obs["final"]
    return {"i": i, "opts": sorted(opts), "tally": tally, "bad": bad, "trace": obs["trace"],
            "final": None if fin is None else {k: fin[k] for k in ("S", "D", "A", "I", "P", "K", "neq")},
            "warn": [m[:80] for m in obs["warnings"]][:3]}


def rejection_records(prog, opts, rej, mine, trace):
    recs = []
    for f in rej["failed"]:
        observable = REJ_OBS.get(f)
        if observable is None or observable not in mine:
            continue
        pname = rej["ev"] if rej["ev"] in L.PASSES else "detect_aliases"
        it = 1 + sum(1 for e in trace[:rej["l"] - 1] if e["ev"] == "pass" and e["name"] == L.PASSES[-1])
        recs.append({"observable": observable, "tags": shape_tags(prog, opts, pname, it), "exception_type": None,
                     "detail": "SimplifyTrace rejects the recorded trace at event %d (%s): %s fails | bp=%s opts=%s" % (
                         rej["l"], rej["ev"], f, json.dumps(prog["bp"], sort_keys=True), sorted(opts))})
    return recs


def run(ctx, prop):
    global _PROGS
    mine = C14_OBS if prop == "C14" else C15_OBS
    thorough = ctx.tier == "thorough"
    rng = random.Random(ctx.seed * 7919 + 14)
    procs = min(16, int(os.environ.get("VERIF_PROCS", "16")))
    workers = min(16, int(os.environ.get("VERIF_TLC_WORKERS", os.environ.get("VERIF_PROCS", "16"))))

    # the two directed TLC runs of step 2 do not depend on step 1: start them now, collect them below
    from concurrent.futures import ThreadPoolExecutor
    pool_ = ThreadPoolExecutor(2)
    fut_a = pool_.submit(L.tlc.run, "Simplify", "Simplify_directed_asbuilt.cfg", workers=1, deadlock=False, timeout=1800)
    fut_i = pool_.submit(L.tlc.run, "Simplify", "Simplify_directed_intended.cfg", workers=max(1, workers // 2),
                         deadlock=False, timeout=1800)
    # ---- 1. programs: the base family (+ seeded draws from the whole blueprint space in the thorough tier)
    res = L.tlc_programs(ctx, "Simplify_progs.cfg", what="programs of the base family (PROG lines)")
    progs = res.tr("PROG")
    n_base = len(progs)
    if thorough:
        space = {"core": 8, "ali": 30, "cst": 11, "par": 12, "elim": 19, "ini": (0, 3), "row": (1, 3), "use": 4,
                 "rev": (0, 1), "dne": (0, 2), "perm": (0, 5)}
        draws, seen = [], {bpkey(p["bp"]) for p in progs}
        while len(draws) < int(os.environ.get("VERIF_SIMPLIFY_DRAWS", "400")):
            bp = {k: (rng.randint(*v) if isinstance(v, tuple) else rng.randint(1, v)) for k, v in space.items()}
            bp["meta"] = 0
            if bpkey(bp) not in seen:
                seen.add(bpkey(bp))
                draws.append(bp)
        path = L.write_json(draws, "simbp_")
        try:
            r2 = L.tlc_programs(ctx, "Simplify_progs_file.cfg", env={"BP_FILE": path},
                                what="programs of %d seeded blueprint draws" % len(draws))
        finally:
            os.unlink(path)
        progs += r2.tr("PROG")
        ctx.extra["blueprint_draws"] = {"drawn": len(draws), "admissible(regular)": len(r2.tr("PROG"))}
    if len(progs) < 100:
        raise MachineryError("vacuous: only %d programs" % len(progs))
    bykey = {bpkey(p["bp"]): i for i, p in enumerate(progs)}

    # ---- 2. as-built spec at the directed option sets: every predicted violation is replayed on the code
    ra = fut_a.result()
    ctx.add_tlc(ra, "as-built switches, directed family: expected counterexamples (CEX lines)")
    cex = ra.tr("CEX")
    if not cex:
        raise MachineryError("vacuous: the as-built spec produced no counterexample")
    ri = fut_i.result()
    pool_.shutdown()
    ctx.add_tlc(ri, "intended switches, directed family x directed option sets: all properties")
    if ri.violated:
        raise MachineryError("spec Simplify (intended) violates %s:\n%s" % (ri.violated, ri.cex[:3000]))

    # ---- 3. (blueprint, option set) pairs
    per_bp = 12 if thorough else 3
    pool = option_pool(rng, 400 if thorough else 120)
    pairs = {}
    for i, p in enumerate(progs):
        chosen = [pool[0]] + [pool[(i * 7 + j * 13 + 1) % len(pool)] for j in range(per_bp - 1)]
        pairs[i] = [list(t) for t in sorted({tuple(sorted(c)) for c in chosen})]
    directed = 0
    for c in cex:
        i = bykey.get(bpkey(c["bp"]))
        if i is None:
            continue
        o = sorted(c["opts"])
        if o not in pairs[i]:
            pairs[i].append(o)
            directed += 1
    groups = [{"bp": progs[i]["bp"], "optsets": pairs[i]} for i in sorted(pairs)]
    path = L.write_json(groups, "simpairs_")
    try:
        rp = L.tlc.run("Simplify", "Simplify_pairs.cfg", workers=workers, env={"PAIR_FILE": path}, deadlock=False,
                       timeout=3000)
    finally:
        os.unlink(path)
    ctx.add_tlc(rp, "intended spec on the replayed (blueprint, options) pairs: SolutionPreserved, "
                    "RecordedEliminationsHold, SelfContained, MetadataMerged, Balance")
    if rp.violated:
        raise MachineryError("spec Simplify (intended) violates %s on the replayed pairs:\n%s" % (rp.violated, rp.cex[:3000]))
    if thorough:
        # all 512 subsets of the nine rewriting options for a slice of the base family
        nfull = int(os.environ.get("VERIF_SIMPLIFY_FULL", "24"))
        step = max(1, n_base // nfull)
        full = list(range(0, n_base, step))[:nfull]
        path = L.write_json([progs[i]["bp"] for i in full], "simbp_")
        try:
            rf = L.tlc.run("Simplify", "Simplify_file_main_intended.cfg", workers=workers, env={"BP_FILE": path},
                           deadlock=False, timeout=3000)
        finally:
            os.unlink(path)
        ctx.add_tlc(rf, "intended spec, %d blueprints x all 512 subsets of the nine rewriting options" % len(full))
        if rf.violated:
            raise MachineryError("spec Simplify (intended) violates %s:\n%s" % (rf.violated, rf.cex[:3000]))
        import itertools
        for i in full:
            have = {tuple(o) for o in pairs[i]}
            for r in range(len(L.MAIN9) + 1):
                for sub in itertools.combinations(L.MAIN9, r):
                    o = tuple(sorted(set(sub) | MX))
                    if o not in have:
                        pairs[i].append(list(o))
        ctx.extra["exhaustive_512"] = len(full)

    # ---- 4. replay every pair on the real code
    _PROGS = progs
    items = [(i, o) for i in sorted(pairs) for o in pairs[i]]
    results = par.pmap(_run_pair, items, procs)
    tallies, per_pass_on, cex_hit = {}, {}, 0
    traces, trace_items = [], []
    cexkeys = {(bpkey(c["bp"]), tuple(sorted(c["opts"]))) for c in cex}
    cex_confirmed = set()
    for r in results:
        prog, opts = progs[r["i"]], r["opts"]
        ctx.programs += 1
        for o in opts:
            per_pass_on[o] = per_pass_on.get(o, 0) + 1
        key = r["tally"] or "checked"
        tallies[key] = tallies.get(key, 0) + 1
        bad = [tuple(b) for b in r["bad"]]
        if bad and (bpkey(prog["bp"]), tuple(opts)) in cexkeys:
            cex_confirmed.add((bpkey(prog["bp"]), tuple(opts)))
        for rec in make_records(prog, opts, bad, mine):
            ctx.violation(rec, {"kind": "program", "prog": prog, "opts": opts})
        if r["trace"] is not None:
            traces.append(r["trace"])
            trace_items.append((r["i"], opts))
        if len(ctx.samples) < 3 and not r["tally"] and not bad and len(opts) > 4:
            ctx.sample({"kind": "program", "bp": prog["bp"], "modelica": L.render(prog), "options": opts,
                        "solution": prog["sol"], "observed_final": r["final"]}, limit=3)
    ctx.extra["asbuilt_counterexamples"] = {"predicted": len(cexkeys), "replayed": len([k for k in cexkeys if k[0] in bykey]),
                                            "reproduced_on_code": len(cex_confirmed)}
    ctx.extra["verdict_tally"] = tallies
    ctx.extra["option_on_counts"] = per_pass_on
    ctx.extra["programs"] = {"blueprints": len(progs), "base": n_base, "pairs": len(items), "directed_pairs_added": directed}
    for o in L.MAIN9:
        if not per_pass_on.get(o):
            raise MachineryError("vacuous: option %s never enabled" % o)
    if not tallies.get("checked"):
        raise MachineryError("vacuous: no program was checked")

    # ---- 4b. conformance of the operational spec itself (auxiliary state -> model drift only): for a sample of
    #          the pairs TLC prints every admissible final state; the observed final name sets / equation count
    #          must be one of them
    nfin = int(os.environ.get("VERIF_SIMPLIFY_FIN", "150" if thorough else "30"))
    step = max(1, len(groups) // nfin)
    sample = [g for k, g in enumerate(groups) if k % step == 0][:nfin]
    sample = [dict(g, optsets=g["optsets"][:6]) for g in sample]
    path = L.write_json(sample, "simpairs_")
    try:
        rfin = L.tlc.run("Simplify", "Simplify_pairs_fin.cfg", workers=1, env={"PAIR_FILE": path}, deadlock=False,
                         timeout=3000)
    finally:
        os.unlink(path)
    ctx.add_tlc(rfin, "intended spec on a sample of the pairs, printing every admissible final state (FIN lines)")
    if rfin.violated:
        raise MachineryError("spec Simplify (intended) violates %s" % rfin.violated)
    fins = {}
    for f in rfin.tr("FIN"):
        fins.setdefault((bpkey(f["bp"]), tuple(sorted(f["opts"]))), []).append(f)
    conf = {"compared": 0, "predicted": 0}
    for r in results:
        key = (bpkey(progs[r["i"]]["bp"]), tuple(r["opts"]))
        if key not in fins:
            continue
        conf["compared"] += 1
        if r["final"] is None:
            ok = any(f["status"] == "raised" for f in fins[key])
            kind = "failure-not-predicted-by-spec"
        else:
            o = r["final"]
            ok = any(f["status"] == "done" and f["fin"]["neq"] == o["neq"] and
                     all(set(f["fin"][k]) == set(o[k]) for k in "SDAIPK") for f in fins[key])
            kind = "final-name-sets-not-predicted-by-spec"
        if ok:
            conf["predicted"] += 1
        else:
            ctx.note_drift(kind)
            ex = ctx.extra.setdefault("drift_examples", [])
            if len(ex) < 5:
                ex.append({"kind": kind, "bp": progs[r["i"]]["bp"], "opts": r["opts"], "observed": r["final"],
                           "tally": r["tally"], "predicted": [dict(f["fin"], status=f["status"]) for f in fins[key]][:3]})
    ctx.extra["spec_conformance_final_state"] = conf
    if not conf["compared"]:
        raise MachineryError("vacuous: no final state compared with the spec")

    # ---- 5. binding B: the recorded per-pass traces against SimplifyTrace.tla
    ntr = int(os.environ.get("VERIF_SIMPLIFY_TRACES", "2500" if thorough else "350"))
    idx = list(range(len(traces)))
    rng.shuffle(idx)
    idx = sorted(idx[:ntr])
    sel = [traces[k] for k in idx]
    rej = L.validate_traces(ctx, sel, "trace validation of %d recorded simplify() runs" % len(sel))
    ctx.traces += len(sel)
    for k, rj in rej.items():
        i, opts = trace_items[idx[k]]
        recs = rejection_records(progs[i], opts, rj, mine, sel[k])
        for rec in recs:
            ctx.violation(rec, {"kind": "trace", "prog": progs[i], "opts": opts})
        other = [f for f in rj["failed"] if REJ_OBS.get(f) is None] if not any(REJ_OBS.get(f) for f in rj["failed"]) else []
        for f in other:
            ctx.note_drift("trace-%s" % f)
            ex = ctx.extra.setdefault("drift_examples", [])
            if len(ex) < 5:
                ex.append({"bp": progs[i]["bp"], "opts": opts, "rejection": rj,
                           "events": [{k2: v for k2, v in e.items() if k2 not in ("syms", "opts")}
                                      for e in sel[k][max(0, rj["l"] - 3):rj["l"]]]})
    ctx.sample({"kind": "recorded-trace", "events": [{k: v for k, v in e.items() if k != "syms"} for e in sel[0][:4]]}, limit=4)
    # ---- 6. binding self-tests: a corrupted trace / a corrupted observation must be rejected
    bad = json.loads(json.dumps([t for t in sel if any(
        e["ev"] == "pass" and e["name"] == "factor_and_simplify_equations" for e in t)][:3]))
    if not bad:
        raise MachineryError("no complete trace recorded")
    for t in bad:
        for e in t:
            if e["ev"] == "pass" and e["name"] == "factor_and_simplify_equations":
                e["neq"] += 1
    if len(L.validate_traces(ctx, bad, "binding self-test: corrupted traces must be rejected")) != len(bad):
        raise MachineryError("SimplifyTrace accepted a corrupted trace - binding is vacuous")
    p0 = dict(progs[0], sol={k: v + 1 for k, v in progs[0]["sol"].items()})
    _, bad0 = classify(p0, [], L.run_program(p0, set()))
    if not any(o == "residual" for o, _ in bad0):
        raise MachineryError("a corrupted solution was not noticed - binding is vacuous")
    ctx.assumptions += [
        "solution-set equality is decided on the constructed uniquely solvable families (residual 0 at the known solution "
        "+ exact full column rank of the integer Jacobian), not for arbitrary nonlinear DAEs",
        "an exception from simplify() and the 'exceeded maximum iteration limit' warnings count as reported failure (tallied)",
        "reduce_affine_expression is only required to preserve solutions for models affine in states/derivatives/"
        "algebraics/inputs (flag computed by the spec)",
        "eliminable_variable_expression is the regular expression e_.*; time and inputs do not occur in eliminated definitions "
        "of states"]
    if os.environ.get("VERIF_DEBUG_TIMES"):
        print(json.dumps(ctx.extra.get("drift_examples"), indent=1)[:3000])
        print(json.dumps(ctx.extra.get("verdict_tally")), json.dumps(ctx.extra.get("asbuilt_counterexamples")))
        for c in ctx.tlc_cmds:
            print("  tlc %6.1fs %7d states  %s" % (c["wall_s"], c["distinct"], c["what"][:90]))
    return {"exhaustive": False}


def replay(ctx, sc, prop):
    mine = C14_OBS if prop == "C14" else C15_OBS
    prog, opts = sc["prog"], sc["opts"]
    obs = L.run_program(prog, set(opts))
    tally, bad = classify(prog, opts, obs)
    recs = make_records(prog, opts, [tuple(b) for b in bad], mine)
    if sc.get("kind") == "trace" and obs["trace"] is not None:
        rej = L.validate_traces(ctx, [obs["trace"]], "replay of one recorded trace")
        for rj in rej.values():
            recs += rejection_records(prog, opts, rj, mine, obs["trace"])
    if tally:
        print("replay: %s" % tally)
    return recs
