#!/venv/bin/python
"""(re)generate the seeded-change table inside DESIGN.md between the markers"""
import subprocess, re
t = subprocess.run(['/verif/tools/seed_table.py'], capture_output=True, text=True).stdout.rstrip()
s = open('/verif/DESIGN.md').read()
block = "<!-- SEED_TABLE_BEGIN -->\n" + t + "\n<!-- SEED_TABLE_END -->"
if "%%SEED_TABLE%%" in s:
    s = s.replace("%%SEED_TABLE%%", block)
else:
    s = re.sub(r"<!-- SEED_TABLE_BEGIN -->.*?<!-- SEED_TABLE_END -->", lambda m: block, s, flags=re.S)
open('/verif/DESIGN.md', 'w').write(s)
rows = [l for l in t.splitlines()[2:]]
print(len(rows), "seeds;", sum('MISSED ->' in l for l in rows), "first missed then caught;",
      sum(('MISSED' in l and 'caught' not in l) for l in rows), "never caught")
