\* C20 as the pinned code behaves (library_folders not compared, dlopen by path): TLC is EXPECTED to violate ResultIsFresh
CONSTANTS K = 2
          Editable = {"M"}
          Addable = {}
          OptNames = {"O1","O2","O3","O4"}
          Modes = {"cache","codegen"}
          Versions = {1,2}
          Holds = {TRUE,FALSE}
          MaxClock = 1000000
          LibFoldersInKey = FALSE
          Beyond = {}
          OptionValuesCompared = TRUE
          FreshLibHandles = FALSE
INIT Init
NEXT Next
VIEW View
INVARIANT TypeOK
INVARIANT ClockInv
INVARIANT ResultIsFresh
PROPERTY ResultIsFreshAct
CHECK_DEADLOCK FALSE
