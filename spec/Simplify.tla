------------------------------ MODULE Simplify ------------------------------
(* Properties C14, C15, C16.  Model.simplify() of pymoca's CasADi back end
   (backends/casadi/model.py::simplify/_simplify_once, alias_relation.py).

   ORACLE MODE (DESIGN 2.2 C).  Init chooses a BLUEPRINT (a vector of small
   knob values) and an OPTION SET.  From the blueprint the spec derives a model
   that is built FROM ITS SOLUTION: free quantities (states, inputs, free
   parameters, the unknowns of the core) get values from a fixed table, every
   defined quantity (parameter/constant values, alias variables, constant
   assignments, eliminable variables) gets the value its defining equation
   implies, and the literal of every remaining ("balance") equation is derived
   so that the residual vanishes.  Only blueprints whose integer Jacobian with
   respect to the unknowns (derivatives + algebraic variables) is nonsingular
   are admitted, so the solution is unique by construction.

   Next runs the option-guarded passes of _simplify_once, in the order of the
   code, one named action per pass (the names are those of the guarded hook
   _verif_pass in model.py).  Each pass rewrites
        cat   (live names -> category S/D/A/I/P/K)      "unknowns", "parameters", "constants"
        val   (value expressions of parameters/constants)
        attr  (min/max/nominal/fixed/start metadata, C16)
        eqs, ieqs  (residual expressions as trees)
        rel   (signed alias relation, as in AliasRelation.tla)
   Expressions are trees; the smart constructors MkAdd/MkSub/MkMul/MkNeg model
   the simplifications CasADi's MX constructors perform, because the passes of
   the real code match on the shape of MX trees.  Where the real code's result
   depends on things the spec does not want to prescribe (order of symvar,
   whether the "slow" substitute-and-test alias detection succeeds) the action
   is nondeterministic and TLC explores every admissible outcome.

   Properties (DESIGN Appendix C.6), checked by TLC for every blueprint, every
   option set and every admissible outcome:
     SolutionPreserved          C14   e[sol] = 0 for all remaining (initial) equations,
                                      Jacobian wrt remaining unknowns nonsingular (exact Bareiss)
     RecordedEliminationsHold   C14   alias signs / constant values true in sol
     Balance (action property)  C15   |S|+|A|-|E| unchanged by every pass
     SelfContained              C15   remaining expressions mention live names only
     MetadataMerged             C16   attributes of a kept variable = Merged(c)
   Preconditions are encoded as the property says: after reduce_affine on a
   non-affine model the solution clauses are not required.

   AS-BUILT switches (DESIGN 2.4):
     ConstValuesResolved   TRUE  = replace_constant_values resolves constant-valued
                                   expressions over other constants before substituting
                           FALSE = one simultaneous substitution (as the pinned code does)
     OldAliasSignStripped  TRUE  = the "already handled in a previous detect_aliases pass"
                                   test looks at the unsigned alias name
                           FALSE = as the pinned code: tests the signed string          *)
EXTENDS Integers, Sequences, FiniteSets, TLC, TLCExt, Json, IOUtils, FiniteSetsExt, SequencesExt

CONSTANTS
    Family,                \* "base" | "centres" | "file" (blueprints from IOEnv.BP_FILE)
                           \* | "pairs" (IOEnv.PAIR_FILE: [{bp, optsets: [[option,...],...]}, ...])
    OptMode,               \* "main" | "none" | "directed" | "meta" | "file" (option sets from IOEnv.OPT_FILE)
    ConstValuesResolved,
    OldAliasSignStripped,
    PrintProg,             \* TRUE: Log prints one PROG line per initial state (program IR, solution, tags)
    PrintFin,              \* TRUE: Log prints one FIN line per final state (predicted name sets / counts)
    PrintCex               \* TRUE: Log prints a CEX line for every transition into a state violating a property
                           \*       (used with the as-built switches, where violations are expected and replayed)

VARIABLES bp, opts, sol, cat, val, attr, eqs, ieqs, rel, newc, orig,
          pc, iter, algLeft, status, nonaffine, hazard, last

vars == <<bp, opts, sol, cat, val, attr, eqs, ieqs, rel, newc, orig, pc, iter, algLeft, status, nonaffine, hazard, last>>

-----------------------------------------------------------------------------
(* Expression trees, uniform node shape *)
Lit(c)      == [k |-> "lit", n |-> "", v |-> c, a |-> <<>>]
Sym(x)      == [k |-> "sym", n |-> x,  v |-> 0, a |-> <<>>]
Op(o, args) == [k |-> o,     n |-> "", v |-> 0, a |-> args]
NaN         == [k |-> "nan", n |-> "", v |-> 0, a |-> <<>>]     \* "no value" of a parameter
IsLit(e)  == e.k = "lit"
IsSym(e)  == e.k = "sym"
IsZero(e) == e.k = "lit" /\ e.v = 0
IsOne(e)  == e.k = "lit" /\ e.v = 1
IsM1(e)   == e.k = "lit" /\ e.v = -1

(* CasADi MX constructor simplifications (probed on casadi 3.8: x+5 -> (5+x), x-(-y) -> x+y,
   (-x)-y -> -(x+y), 0-x -> -x, x*1 -> x, (-1)*x -> -x, (-x)*y -> -(x*y), x-x -> 0, constant folding) *)
RECURSIVE MkNeg(_), MkAdd(_, _), MkSub(_, _), MkMul(_, _)
MkNeg(x) == IF IsLit(x) THEN Lit(-x.v)
            ELSE IF x.k = "neg" THEN x.a[1]
            ELSE Op("neg", <<x>>)
MkAdd(x, y) ==
    IF IsLit(x) /\ IsLit(y) THEN Lit(x.v + y.v)
    ELSE IF IsZero(x) THEN y
    ELSE IF IsZero(y) THEN x
    ELSE IF y.k = "neg" THEN MkSub(x, y.a[1])
    ELSE IF x.k = "neg" THEN MkSub(y, x.a[1])
    ELSE IF x.k = "sub" /\ x.a[2] = y THEN x.a[1]
    ELSE IF IsLit(y) THEN Op("add", <<y, x>>)
    ELSE IF x = y THEN Op("mul", <<Lit(2), x>>)
    ELSE Op("add", <<x, y>>)
MkSub(x, y) ==
    IF IsLit(x) /\ IsLit(y) THEN Lit(x.v - y.v)
    ELSE IF IsZero(y) THEN x
    ELSE IF IsZero(x) THEN MkNeg(y)
    ELSE IF x = y THEN Lit(0)
    ELSE IF y.k = "neg" THEN MkAdd(x, y.a[1])
    ELSE IF x.k = "neg" THEN MkNeg(MkAdd(x.a[1], y))
    ELSE IF x.k = "add" /\ x.a[2] = y THEN x.a[1]
    ELSE IF x.k = "add" /\ x.a[1] = y THEN x.a[2]
    ELSE Op("sub", <<x, y>>)
MkMul(x, y) ==
    IF IsLit(x) /\ IsLit(y) THEN Lit(x.v * y.v)
    ELSE IF IsZero(x) \/ IsZero(y) THEN Lit(0)
    ELSE IF IsOne(x) THEN y
    ELSE IF IsOne(y) THEN x
    ELSE IF IsM1(x) THEN MkNeg(y)
    ELSE IF IsM1(y) THEN MkNeg(x)
    ELSE IF x.k = "neg" THEN MkNeg(MkMul(x.a[1], y))
    ELSE IF y.k = "neg" THEN MkNeg(MkMul(x, y.a[1]))
    ELSE IF IsLit(y) THEN Op("mul", <<y, x>>)
    ELSE Op("mul", <<x, y>>)

RECURSIVE Subst(_, _)      \* m : name -> tree; rebuilt through the constructors like ca.substitute
Subst(e, m) ==
    CASE e.k = "sym" -> IF e.n \in DOMAIN m THEN m[e.n] ELSE e
      [] e.k = "neg" -> MkNeg(Subst(e.a[1], m))
      [] e.k = "add" -> MkAdd(Subst(e.a[1], m), Subst(e.a[2], m))
      [] e.k = "sub" -> MkSub(Subst(e.a[1], m), Subst(e.a[2], m))
      [] e.k = "mul" -> MkMul(Subst(e.a[1], m), Subst(e.a[2], m))
      [] OTHER -> e

RECURSIVE Eval(_, _)       \* s : name -> Int
Eval(e, s) ==
    CASE e.k = "lit" -> e.v
      [] e.k = "sym" -> s[e.n]
      [] e.k = "neg" -> -Eval(e.a[1], s)
      [] e.k = "add" -> Eval(e.a[1], s) + Eval(e.a[2], s)
      [] e.k = "sub" -> Eval(e.a[1], s) - Eval(e.a[2], s)
      [] e.k = "mul" -> Eval(e.a[1], s) * Eval(e.a[2], s)

RECURSIVE DEval(_, _, _)   \* value at s of the partial derivative wrt name u
DEval(e, u, s) ==
    CASE e.k = "lit" -> 0
      [] e.k = "sym" -> IF e.n = u THEN 1 ELSE 0
      [] e.k = "neg" -> -DEval(e.a[1], u, s)
      [] e.k = "add" -> DEval(e.a[1], u, s) + DEval(e.a[2], u, s)
      [] e.k = "sub" -> DEval(e.a[1], u, s) - DEval(e.a[2], u, s)
      [] e.k = "mul" -> DEval(e.a[1], u, s) * Eval(e.a[2], s) + Eval(e.a[1], s) * DEval(e.a[2], u, s)

RECURSIVE DTree(_, _)      \* symbolic partial derivative wrt name u
DTree(e, u) ==
    CASE e.k = "lit" -> Lit(0)
      [] e.k = "sym" -> IF e.n = u THEN Lit(1) ELSE Lit(0)
      [] e.k = "neg" -> MkNeg(DTree(e.a[1], u))
      [] e.k = "add" -> MkAdd(DTree(e.a[1], u), DTree(e.a[2], u))
      [] e.k = "sub" -> MkSub(DTree(e.a[1], u), DTree(e.a[2], u))
      [] e.k = "mul" -> MkAdd(MkMul(DTree(e.a[1], u), e.a[2]), MkMul(e.a[1], DTree(e.a[2], u)))

RECURSIVE Syms(_)
Syms(e) == CASE e.k = "sym" -> {e.n}
             [] e.k \in {"lit", "nan"} -> {}
             [] e.k = "neg" -> Syms(e.a[1])
             [] OTHER -> Syms(e.a[1]) \cup Syms(e.a[2])

RECURSIVE Deg(_, _)        \* syntactic degree in the names of V
Deg(e, V) == CASE e.k = "sym" -> IF e.n \in V THEN 1 ELSE 0
               [] e.k \in {"lit", "nan"} -> 0
               [] e.k = "neg" -> Deg(e.a[1], V)
               [] e.k = "mul" -> Deg(e.a[1], V) + Deg(e.a[2], V)
               [] OTHER -> Max({Deg(e.a[1], V), Deg(e.a[2], V)})

IsConstTree(e) == e.k \in {"lit", "nan"}          \* MX.is_constant()
IsRegular(e)   == e.k = "lit"                     \* ... and is_regular()

SeqSyms(s) == UNION {Syms(s[i]) : i \in DOMAIN s}
SubstSeq(s, m) == TLCEval([i \in DOMAIN s |-> Subst(s[i], m)])

-----------------------------------------------------------------------------
(* Exact nonsingularity test: fraction-free (Bareiss) elimination on an integer matrix *)
(* TLC passes operator arguments by name: a heavy argument is bound to a VALUE with a singleton
   quantifier  \E X \in {expr} : ...  before it is used many times. *)
RECURSIVE BNZ(_, _)     \* M: sequence of rows; prev: previous pivot.  TRUE iff det(M) # 0
BNZ(M, prev) ==
    IF M = <<>> THEN TRUE
    ELSE LET n == Len(M)
             cands == {r \in 1..n : M[r][1] # 0}
         IN  IF cands = {} THEN FALSE
             ELSE LET r == Min(cands)
                      P == M[r]
                      piv == P[1]
                      M2 == TLCEval([i \in 1..(n-1) |-> LET R == M[IF i < r THEN i ELSE i + 1] IN
                                      [j \in 1..(n-1) |-> (R[j+1] * piv - R[1] * P[j+1]) \div prev]])
                  IN  \E X \in {M2} : BNZ(X, piv)

CatOf(c, x)   == IF x \in DOMAIN c THEN c[x] ELSE "?"      \* "?": a dangling name (as-built variants only)
Unknowns(c)   == {x \in DOMAIN c : c[x] \in {"D", "A"}}
NamesOf(c, K) == {x \in DOMAIN c : c[x] \in K}

(* Jacobian of the equation sequence E wrt the unknowns of c at s is square and nonsingular *)
Regular(E0, c0, s0) ==
    \E E \in {E0} : \E c \in {c0} : \E s \in {s0} :
    LET U  == Unknowns(c)
        n  == Len(E)
    IN  /\ Cardinality(U) = n
        /\ \E us \in {SetToSeq(U)} :
             \E J \in {TLCEval([i \in 1..n |-> [j \in 1..n |-> DEval(E[i], us[j], s)]])} : BNZ(J, 1)

-----------------------------------------------------------------------------
(* Signed alias relation: operators of AliasRelation.tla (C17) on one relation value *)
AR == INSTANCE AliasRelation WITH Names <- {}, MaxRel <- 1, MaxOps <- 0,
                                  rel <- <<rel>>, pairs <- <<{}>>, ops <- 0, last <- last
Neg(x)  == <<x[1], -x[2]>>
NegB(b) == {Neg(y) : y \in b}
BlockOf(R, x) == AR!BlockOf(R, x)
AddTo(R, x, y) == AR!AddTo(R, x, y)
Consistent(R, x, y) == AR!Consistent(R, x, y)

-----------------------------------------------------------------------------
(* Metadata (C16).  Bounds are integers, +-INF are sentinels closed under negation. *)
INF == 1000
DefaultAttr == [min |-> -INF, max |-> INF, nom |-> 0, fixed |-> FALSE, sset |-> FALSE, start |-> 0]

-----------------------------------------------------------------------------
(* Options *)
Main9 == {"replace_parameter_expressions", "replace_constant_expressions",
          "eliminate_constant_assignments", "replace_parameter_values", "replace_constant_values",
          "eliminable_variable_expression", "factor_and_simplify_equations", "detect_aliases",
          "reduce_affine_expression"}
Aux   == {"expand_mx", "expand_vectors", "resolve_parameter_values", "allow_derivative_aliases",
          "iterative_simplification"}
AllOptions == Main9 \cup Aux

OptSets ==
    CASE OptMode = "main" -> {s \cup {"expand_mx", "allow_derivative_aliases"} : s \in SUBSET Main9}
      [] OptMode = "none" -> {{"allow_derivative_aliases"}}
      [] OptMode = "directed" ->      \* the option sets at which the as-built switches matter
            LET mx == {"expand_mx", "allow_derivative_aliases"} IN
            { mx \cup {"replace_constant_values"},
              mx \cup {"replace_constant_values", "replace_parameter_expressions", "detect_aliases"},
              mx \cup {"replace_constant_values", "eliminate_constant_assignments", "reduce_affine_expression"},
              mx \cup Main9 \cup {"iterative_simplification"},
              mx \cup {"iterative_simplification", "detect_aliases", "eliminate_constant_assignments",
                       "replace_parameter_values", "replace_constant_values"},
              mx \cup {"iterative_simplification", "detect_aliases", "replace_parameter_values",
                       "resolve_parameter_values"} }
      [] OptMode = "meta" -> {{"detect_aliases", "allow_derivative_aliases"},
                              {"detect_aliases", "allow_derivative_aliases", "expand_mx", "expand_vectors"},
                              {"detect_aliases", "expand_vectors", "factor_and_simplify_equations"}}
      [] OptMode = "file" -> LET f == JsonDeserialize(IOEnv.OPT_FILE) IN {ToSet(f[i]) : i \in DOMAIN f}

Passes == <<"expand_vectors_sx", "resolve_parameter_values", "replace_parameter_expressions",
            "replace_constant_expressions", "eliminate_constant_assignments",
            "replace_parameter_values", "replace_constant_values",
            "eliminable_variable_expression", "expand_vectors_mx",
            "factor_and_simplify_equations", "detect_aliases", "reduce_affine_expression",
            "expand_mx">>

-----------------------------------------------------------------------------
(* Blueprints.  Every knob is a small integer; the tables below give its meaning. *)

(* core: kinds of the core unknowns ("alg": algebraic a_j; "der": state x_j with unknown der(x_j))
   and a nonsingular integer matrix over them *)
CoreTab == <<
    [kinds |-> <<"alg">>,               mat |-> <<<<1>>>>],
    [kinds |-> <<"der">>,               mat |-> <<<<1>>>>],
    [kinds |-> <<"alg", "alg">>,        mat |-> <<<<1, 2>>, <<3, 4>>>>],
    [kinds |-> <<"der", "alg">>,        mat |-> <<<<1, 0>>, <<2, -1>>>>],
    [kinds |-> <<"alg", "der">>,        mat |-> <<<<2, 1>>, <<1, 1>>>>],
    [kinds |-> <<"alg", "alg", "alg">>, mat |-> <<<<1, 1, 0>>, <<0, 1, 1>>, <<1, 0, 1>>>>],
    [kinds |-> <<"der", "der", "alg">>, mat |-> <<<<1, 0, 0>>, <<1, -1, 0>>, <<2, 0, 3>>>>],
    [kinds |-> <<"der", "alg", "alg">>, mat |-> <<<<2, -1, 0>>, <<-1, 2, -1>>, <<0, -1, 2>>>>] >>
AlgName   == <<"a1", "a2", "a3">>
StateName == <<"x1", "x2", "x3">>
DerName   == <<"der(x1)", "der(x2)", "der(x3)">>
DerOf(x)  == "der(" \o x \o ")"

(* alias chains: sequence of links [s: sign, f: spelling, t: target]
   spellings  1: v = +-t      2: v -+ t = 0     3: +-t = v      4: 0 = v -+ t
              5: 3*v = +-3*t  (only the substitute-and-test detection can see it)
              6: -v = -+t
              7: (t + w1) -+ v = 0 where w1 is the first constant-assignment variable (falls back to
                 spelling 2 without one): alias-shaped only once w1 has been replaced by 0
              9: t = +-v  (the target first: the other symvar order of the fast path)
              8: p1*v = +-(p1*t) with the parameter p1 (falls back to spelling 5 without one): three symbols, an
                 alias only through the "two names besides parameters/constants" test
   targets    "c1" first core unknown  "c2" last core unknown  "prev" previous alias variable
              "x" first state (falls back to c1)  "u" the input  "p" parameter p1 (needs par knob >= 1,
              else c1)  "k" constant k1 (needs par knob 6.., else c1)                      *)
L(s, f, t) == [s |-> s, f |-> f, t |-> t]
AliTab == <<
    <<>>,
    <<L(1, 1, "c1")>>,
    <<L(-1, 1, "c1")>>,
    <<L(-1, 2, "c1")>>,
    <<L(1, 2, "c1")>>,
    <<L(1, 3, "c1")>>,
    <<L(-1, 3, "c1")>>,
    <<L(1, 4, "c1")>>,
    <<L(-1, 4, "c1")>>,
    <<L(1, 5, "c1")>>,
    <<L(-1, 6, "c1")>>,
    <<L(1, 1, "c1"), L(-1, 1, "prev")>>,
    <<L(-1, 2, "c1"), L(-1, 3, "prev"), L(1, 1, "prev")>>,
    <<L(-1, 1, "c2"), L(-1, 1, "prev"), L(-1, 2, "prev")>>,
    <<L(1, 1, "x")>>,
    <<L(-1, 1, "x"), L(-1, 2, "prev")>>,
    <<L(-1, 1, "u")>>,
    <<L(1, 3, "u"), L(1, 1, "prev")>>,
    <<L(1, 1, "c1"), L(-1, 3, "c1")>>,
    <<L(1, 1, "p")>>,
    <<L(-1, 1, "k")>>,
    <<L(1, 1, "x"), L(1, 1, "c2")>>,
    <<L(1, 1, "c1"), L(-1, 7, "c1")>>,
    <<L(-1, 1, "c1"), L(1, 7, "c1")>>,
    <<L(-1, 9, "x"), L(-1, 1, "prev"), L(1, 1, "prev")>>,
    <<L(-1, 9, "c1"), L(-1, 1, "prev"), L(1, 2, "prev")>>,
    <<L(-1, 1, "u"), L(1, 9, "prev"), L(-1, 1, "prev")>>,
    <<L(1, 1, "x"), L(-1, 1, "prev"), L(-1, 9, "prev")>>,
    <<L(1, 8, "c1")>>,
    <<L(-1, 8, "c2"), L(1, 1, "prev")>> >>
AliasName == <<"v1", "v2", "v3", "v4">>

(* constant assignments: sequence of [f: spelling, c: value]
   spellings 1: w = c   2: c = w   3: w + (-c) = 0   4: -w = -c   5: 2*w = 2c  (4, 5 are not matched
   by eliminate_constant_assignments)  6: w = p1 (a parameter: constant only after replacement) *)
CstTab == <<
    <<>>,
    <<[f |-> 1, c |-> 5]>>,
    <<[f |-> 2, c |-> 5]>>,
    <<[f |-> 3, c |-> 5]>>,
    <<[f |-> 3, c |-> -4]>>,
    <<[f |-> 1, c |-> 0]>>,
    <<[f |-> 1, c |-> -3]>>,
    <<[f |-> 4, c |-> 5]>>,
    <<[f |-> 5, c |-> 5]>>,
    <<[f |-> 6, c |-> 0]>>,
    <<[f |-> 1, c |-> 5], [f |-> 3, c |-> 2]>> >>
CstName == <<"w1", "w2">>

(* parameters / constants: sequence of [n: name, c: "P"|"K", v: value tree or NaN, use: how it enters
   the core ("add": additive term in row 1, "mul": coefficient of the first core unknown in the last row,
   "no": only through other values)] *)
PV(n, c, v, u) == [n |-> n, c |-> c, v |-> v, use |-> u]
ParTab == <<
    <<>>,
    <<PV("p1", "P", Lit(2), "add")>>,
    <<PV("p1", "P", Lit(2), "no"), PV("p2", "P", MkAdd(Sym("p1"), Lit(1)), "add")>>,
    <<PV("p1", "P", Lit(2), "add"), PV("p2", "P", MkAdd(Sym("p1"), Lit(1)), "no"),
      PV("p3", "P", MkMul(Sym("p2"), Lit(3)), "add")>>,
    <<PV("p1", "P", NaN, "add")>>,
    <<PV("p1", "P", Lit(3), "mul")>>,
    <<PV("k1", "K", Lit(3), "add")>>,
    <<PV("k1", "K", Lit(3), "no"), PV("k2", "K", MkMul(Sym("k1"), Lit(3)), "add")>>,
    <<PV("k1", "K", Lit(3), "add"), PV("k2", "K", MkAdd(Sym("k1"), Lit(1)), "no"),
      PV("k3", "K", MkSub(Sym("k2"), Sym("k1")), "mul")>>,
    <<PV("p1", "P", Lit(2), "no"), PV("p2", "P", MkSub(Lit(5), Sym("p1")), "add"),
      PV("k1", "K", Lit(-2), "no"), PV("k2", "K", MkMul(Sym("k1"), Lit(3)), "add")>>,
    <<PV("k1", "K", Lit(2), "no"), PV("p1", "P", MkAdd(Sym("k1"), Lit(1)), "add"),
      PV("p2", "P", NaN, "mul")>>,
    <<PV("p1", "P", Lit(0), "add")>> >>

(* eliminable variables (names with prefix e_): sequence of [n, f: spelling, r: what it is defined from]
   spellings 1: e = R   2: R = e   3: e + R = 0, i.e. e = -R  (the OP_ADD path of extract_assignment)
             4: (e - 1) = (R - 1) (not matched)
             5: e = R, e is a STATE with unknown der(e); R = s*y + c defines the fresh algebraic y
   right-hand sides  "t+1": c1 + 1   "2t-x": 2*c1 - first state/input   "prev+1": previous e + 1
                     "0": the literal 0 (the equation is the bare symbol)
                     "t*u": c1 * input (not affine in the unknowns+inputs)  "w": first constant-assignment
                     variable or c2   "p*t": p1 * c1 (needs a parameter, else 2*c1) *)
EV(n, f, r) == [n |-> n, f |-> f, r |-> r]
ElimTab == <<
    <<>>,
    <<EV("e_1", 1, "t+1")>>,
    <<EV("e_1", 2, "t+1")>>,
    <<EV("e_1", 3, "t+1")>>,
    <<EV("e_1", 1, "2t-x")>>,
    <<EV("e_1", 4, "t+1")>>,
    <<EV("e_1", 1, "t+1"), EV("e_2", 1, "prev+1")>>,
    <<EV("e_1", 2, "2t-x"), EV("e_2", 3, "prev+1")>>,
    <<EV("e_1", 1, "t*u")>>,
    <<EV("e_1", 1, "w")>>,
    <<EV("e_1", 1, "p*t")>>,
    <<EV("e_s", 5, "y+1")>>,
    <<EV("e_s", 5, "-y")>>,
    <<EV("e_s", 5, "y+x")>>,
    <<EV("e_1", 1, "0")>>,
    <<EV("e_1", 2, "t+1"), EV("e_2", 1, "0")>>,
    \* chains of three: the fixpoint of the replacement values needs two rounds (one substitution is not enough);
    \* the core row uses the LAST name, so after a single round it still mentions the first
    <<EV("e_1", 1, "t+1"), EV("e_2", 1, "prev+1"), EV("e_3", 1, "prev+1")>>,
    <<EV("e_1", 2, "2t-x"), EV("e_2", 3, "prev+1"), EV("e_3", 2, "prev+1")>>,
    <<EV("e_1", 1, "p*t"), EV("e_2", 2, "prev+1"), EV("e_3", 3, "prev+1")>> >>

(* initial equations: 0 none; 1 every state = literal; 2 also last alias / eliminable / constant
   variable = literal; 3 first state = parameter/constant + literal (when there is one) *)
IniDom == 0..3
(* spelling of the core rows: 1  sum = c    2  0 = sum + c    3  first term = c - rest *)
RowDom == 1..3
(* coefficient with which alias / constant / eliminable variables enter the core rows *)
UseTab == <<1, -1, 2, 3>>

BPSpace == [core : 1..Len(CoreTab), ali : 1..Len(AliTab), cst : 1..Len(CstTab), par : 1..Len(ParTab),
            elim : 1..Len(ElimTab), ini : IniDom, row : RowDom, use : 1..Len(UseTab), rev : 0..1, dne : 0..2, perm : 0..5, meta : 0..1000000]

(* values of the free quantities, in order of appearance *)
SolTab == <<2, -3, 5, 7, -1, 4, -2, 3, 6, -5, 8, -7>>

-----------------------------------------------------------------------------
(* Model derivation.  An accumulator is folded over a sequence of items. *)
Acc0 == [cat |-> [x \in {} |-> ""], sol |-> [x \in {} |-> 0], val |-> [x \in {} |-> NaN],
         eqs |-> <<>>, ieqs |-> <<>>, nfree |-> 0, order |-> <<>>, attr |-> [x \in {} |-> DefaultAttr]]

Ext(f, x, y) == TLCEval([z \in DOMAIN f \cup {x} |-> IF z = x THEN y ELSE f[z]])

Free(acc, n, c) ==      \* a quantity whose value is chosen
    [acc EXCEPT !.cat = Ext(@, n, c), !.sol = Ext(@, n, SolTab[acc.nfree + 1]),
                !.nfree = @ + 1, !.order = Append(@, n), !.attr = Ext(@, n, DefaultAttr)]
Given(acc, n, c, x) ==  \* a quantity with a derived value x
    [acc EXCEPT !.cat = Ext(@, n, c), !.sol = Ext(@, n, x), !.order = Append(@, n), !.attr = Ext(@, n, DefaultAttr)]
Eq(l, r) == [l |-> l, r |-> r]
AddEq(acc, l, r)  == [acc EXCEPT !.eqs = Append(@, Eq(l, r))]
AddIEq(acc, l, r) == [acc EXCEPT !.ieqs = Append(@, Eq(l, r))]

Core(b)  == CoreTab[b.core]
NCore(b) == Len(Core(b).kinds)
UnkName(b, j)  == IF Core(b).kinds[j] = "alg" THEN AlgName[j] ELSE DerName[j]
StatesOf(b)    == SelectSeq([j \in 1..NCore(b) |-> IF Core(b).kinds[j] = "der" THEN StateName[j] ELSE ""],
                            LAMBDA s : s # "")
C1(b) == UnkName(b, 1)
C2(b) == UnkName(b, NCore(b))
Pars(b) == ParTab[b.par]
HasPar(b, n) == \E i \in DOMAIN Pars(b) : Pars(b)[i].n = n
X1(b) == IF StatesOf(b) = <<>> THEN "u1" ELSE StatesOf(b)[1]

(* step 1: states, core unknowns, input *)
RECURSIVE AddCore(_, _, _)
AddCore(acc, b, j) ==
    IF j > NCore(b) THEN Free(acc, "u1", "I")
    ELSE IF Core(b).kinds[j] = "alg" THEN AddCore(Free(acc, AlgName[j], "A"), b, j + 1)
    ELSE AddCore(Free(Free(acc, StateName[j], "S"), DerName[j], "D"), b, j + 1)

(* step 2: parameters and constants *)
RECURSIVE AddPars(_, _, _)
AddPars(acc, ps, i) ==
    IF i > Len(ps) THEN acc
    ELSE LET p == ps[i]
             a1 == IF p.v.k = "nan" THEN Free(acc, p.n, p.c) ELSE Given(acc, p.n, p.c, Eval(p.v, acc.sol))
         IN  AddPars([a1 EXCEPT !.val = Ext(@, p.n, p.v)], ps, i + 1)

(* step 3: alias chain *)
AliTarget(b, t, prev) ==
    CASE t = "c1" -> C1(b)
      [] t = "c2" -> C2(b)
      [] t = "prev" -> prev
      [] t = "x" -> IF StatesOf(b) = <<>> THEN C1(b) ELSE StatesOf(b)[1]
      [] t = "u" -> "u1"
      [] t = "p" -> IF HasPar(b, "p1") THEN "p1" ELSE C1(b)
      [] t = "k" -> IF HasPar(b, "k1") THEN "k1" ELSE C1(b)
AliasEq(v, t, s, f) ==      \* the equation spelling; all mean v = s*t
    LET V == Sym(v)  T == Sym(t)  sT == IF s = 1 THEN T ELSE MkNeg(T) IN
    CASE f = 1 -> Eq(V, sT)
      [] f = 2 -> Eq(IF s = 1 THEN MkSub(V, T) ELSE MkAdd(V, T), Lit(0))
      [] f = 3 -> Eq(sT, V)
      [] f = 4 -> Eq(Lit(0), IF s = 1 THEN MkSub(V, T) ELSE MkAdd(V, T))
      [] f = 5 -> Eq(MkMul(Lit(3), V), IF s = 1 THEN MkMul(Lit(3), T) ELSE MkNeg(MkMul(Lit(3), T)))
      [] f = 6 -> Eq(MkNeg(V), IF s = 1 THEN MkNeg(T) ELSE T)
      [] f = 9 -> Eq(T, IF s = 1 THEN V ELSE MkNeg(V))
      [] f = 8 -> Eq(MkMul(Sym("p1"), V), IF s = 1 THEN MkMul(Sym("p1"), T) ELSE MkNeg(MkMul(Sym("p1"), T)))
      [] f = 7 -> Eq(IF s = 1 THEN MkSub(MkAdd(T, Sym("w1")), V) ELSE MkAdd(MkAdd(T, Sym("w1")), V), Lit(0))
W1Zero(b) ==        \* the first constant-assignment variable exists and is 0 in the solution
    /\ CstTab[b.cst] # <<>>
    /\ LET c1 == CstTab[b.cst][1] IN
         IF c1.f = 6 THEN \E i \in DOMAIN Pars(b) : Pars(b)[i].n = "p1" /\ Pars(b)[i].v = Lit(0)
         ELSE c1.c = 0
RECURSIVE AddAli(_, _, _, _, _)
AddAli(acc, b, ls, i, prev) ==
    IF i > Len(ls) THEN acc
    ELSE LET v == AliasName[i]
             t == AliTarget(b, ls[i].t, prev)
             f == IF ls[i].f = 7 /\ ~W1Zero(b) THEN 2
                  ELSE IF ls[i].f = 8 /\ ~HasPar(b, "p1") THEN 5 ELSE ls[i].f
             e == AliasEq(v, t, ls[i].s, f)
         IN  AddAli(AddEq(Given(acc, v, "A", ls[i].s * acc.sol[t]), e.l, e.r), b, ls, i + 1, v)

(* the order of the alias equations (knob perm): the order decides which side of alias_relation.add an existing
   group is on *)
Perms3 == << <<1, 2, 3>>, <<1, 3, 2>>, <<2, 1, 3>>, <<2, 3, 1>>, <<3, 1, 2>>, <<3, 2, 1>> >>
PermOf(n, k) == IF n = 3 THEN Perms3[k + 1]
                ELSE IF n = 2 THEN (IF k % 2 = 0 THEN <<1, 2>> ELSE <<2, 1>>)
                ELSE [i \in 1..n |-> i]
PermuteTail(es, n, pm) ==       \* the last n equations of es in the order pm
    LET m == Len(es) - n IN TLCEval([i \in 1..Len(es) |-> IF i <= m THEN es[i] ELSE es[m + pm[i - m]]])

(* step 4: constant assignments *)
CstEq(w, f, c) ==
    LET W == Sym(w) IN
    CASE f = 1 -> Eq(W, Lit(c))
      [] f = 2 -> Eq(Lit(c), W)
      [] f = 3 -> Eq(MkAdd(W, Lit(-c)), Lit(0))
      [] f = 4 -> Eq(MkNeg(W), Lit(-c))
      [] f = 5 -> Eq(MkMul(Lit(2), W), Lit(2 * c))
      [] f = 6 -> Eq(W, Sym("p1"))
RECURSIVE AddCst(_, _, _, _)
AddCst(acc, b, cs, i) ==
    IF i > Len(cs) THEN acc
    ELSE LET w == CstName[i]
             f == IF cs[i].f = 6 /\ ~HasPar(b, "p1") THEN 1 ELSE cs[i].f
             x == IF f = 6 THEN acc.sol["p1"] ELSE cs[i].c
             e == CstEq(w, f, cs[i].c)
         IN  AddCst(AddEq(Given(acc, w, "A", x), e.l, e.r), b, cs, i + 1)

(* step 5: eliminable variables *)
ElimRhs(b, r, prev) ==
    LET T == Sym(C1(b)) IN
    CASE r = "t+1"    -> MkAdd(T, Lit(1))
      [] r = "2t-x"   -> MkSub(MkMul(Lit(2), T), Sym(X1(b)))
      [] r = "prev+1" -> MkAdd(Sym(prev), Lit(1))
      [] r = "0"      -> Lit(0)
      [] r = "t*u"    -> MkMul(T, Sym("u1"))
      [] r = "w"      -> IF CstTab[b.cst] # <<>> THEN Sym("w1") ELSE Sym(C2(b))
      [] r = "p*t"    -> IF HasPar(b, "p1") THEN MkMul(Sym("p1"), T) ELSE MkMul(Lit(2), T)
      [] r = "y+1"    -> MkAdd(Sym("y"), Lit(1))
      [] r = "-y"     -> MkNeg(Sym("y"))
      [] r = "y+x"    -> MkAdd(Sym("y"), Sym(X1(b)))
ElimEq(e, f, R) ==
    LET E == Sym(e) IN
    CASE f \in {1, 5} -> Eq(E, R)
      [] f = 2 -> Eq(R, E)
      [] f = 3 -> Eq(MkAdd(E, R), Lit(0))
      [] f = 4 -> Eq(MkSub(E, Lit(1)), MkSub(R, Lit(1)))
RECURSIVE AddElim(_, _, _, _, _)
AddElim(acc, b, es, i, prev) ==
    IF i > Len(es) THEN acc
    ELSE LET e == es[i]
             R == ElimRhs(b, e.r, prev)
             q == ElimEq(e.n, e.f, R)
         IN  IF e.f = 5
             THEN \* state e with unknown der(e); the definition determines the fresh algebraic y.
                  \* der(e) gets its own balance row  der(e) + e = c  (added with the core rows).
                  LET a1 == Free(Free(Free(acc, e.n, "S"), DerOf(e.n), "D"), "y", "A")
                      c  == a1.sol[e.n] - Eval(R, a1.sol)      \* e = R + c
                  IN  AddElim(AddEq(a1, q.l, MkAdd(q.r, Lit(c))), b, es, i + 1, e.n)
             ELSE AddElim(AddEq(Given(acc, e.n, "A", (IF e.f = 3 THEN -1 ELSE 1) * Eval(R, acc.sol)), q.l, q.r),
                          b, es, i + 1, e.n)

(* step 6: core rows.  Row i: sum_j M[i][j]*U_j + x_i (own state) + uses + literal *)
LastOr(s, d) == IF s = <<>> THEN d ELSE s[Len(s)]
Uses(b, i) ==       \* extra terms of row i
    LET n  == NCore(b)
        k  == UseTab[b.use]
        al == AliTab[b.ali]
        cs == CstTab[b.cst]
        es == ElimTab[b.elim]
        ps == Pars(b)
        T(c, x) == MkMul(Lit(c), Sym(x))
    IN  (IF i = 1 /\ al # <<>> THEN <<T(k, AliasName[Len(al)])>> ELSE <<>>)
     \o (IF i = n THEN <<T(2, "u1")>> ELSE <<>>)
     \o (IF i = (IF n >= 2 THEN 2 ELSE 1) /\ cs # <<>> THEN [j \in 1..Len(cs) |-> T(k, CstName[j])] ELSE <<>>)
     \o (IF i = n /\ es # <<>> THEN <<T(k, IF es[Len(es)].f = 5 THEN "y" ELSE es[Len(es)].n)>> ELSE <<>>)
     \o (IF i = 1 THEN SelectSeq([j \in 1..Len(ps) |-> IF ps[j].use = "add" THEN Sym(ps[j].n) ELSE Lit(0)],
                                 LAMBDA t : ~IsZero(t)) ELSE <<>>)
     \o (IF i = n THEN SelectSeq([j \in 1..Len(ps) |-> IF ps[j].use = "mul"
                                                       THEN MkMul(Sym(ps[j].n), Sym(C1(b))) ELSE Lit(0)],
                                 LAMBDA t : ~IsZero(t)) ELSE <<>>)
RowTerms(b, i) ==
    LET M == Core(b).mat[i]
        own == SelectSeq([j \in 1..NCore(b) |-> MkMul(Lit(M[j]), Sym(UnkName(b, j)))], LAMBDA t : ~IsZero(t))
    IN  own \o (IF Core(b).kinds[i] = "der" THEN <<Sym(StateName[i])>> ELSE <<>>) \o Uses(b, i)
RECURSIVE SumSeq(_, _)
SumSeq(ts, i) == IF i > Len(ts) THEN Lit(0) ELSE IF i = Len(ts) THEN ts[i] ELSE MkAdd(ts[i], SumSeq(ts, i + 1))
RowEq(ts, form, s) ==
    LET all == SumSeq(ts, 1)
        rest == SumSeq(ts, 2)
    IN  CASE form = 1 -> Eq(all, Lit(Eval(all, s)))
          [] form = 2 -> Eq(Lit(0), MkAdd(all, Lit(-Eval(all, s))))
          [] form = 3 -> Eq(ts[1], MkSub(Lit(Eval(all, s)), rest))
RECURSIVE AddRows(_, _, _)
AddRows(acc, b, i) ==
    IF i > NCore(b) THEN acc
    ELSE LET e == RowEq(RowTerms(b, i), b.row, acc.sol) IN AddRows(AddEq(acc, e.l, e.r), b, i + 1)
AddEsRow(acc, b) ==     \* der(e_s) + e_s = c
    IF "e_s" \in DOMAIN acc.cat
    THEN LET e == RowEq(<<Sym(DerOf("e_s")), Sym("e_s")>>, b.row, acc.sol) IN AddEq(acc, e.l, e.r)
    ELSE acc

(* step 6b: two alias classes whose canonical variables may both not be eliminated, joined by an alias equation:
   d1 = first state (or the input), d2 = der(xd), d1 = +-d2.  The joining equation determines der(xd); _make_alias
   has to leave it alone ("linking two entries in do_not_eliminate").  knob dne: 0 none, 1 d1 = d2, 2 d1 + d2 = 0 *)
AddDne(acc, b) ==
    IF b.dne = 0 THEN acc
    ELSE LET sg == IF b.dne = 1 THEN 1 ELSE -1
             t  == X1(b)
             a1 == Given(Free(acc, "xd", "S"), "der(xd)", "D", sg * acc.sol[t])
             a2 == AddEq(Given(a1, "d1", "A", acc.sol[t]), Sym("d1"), Sym(t))
             a3 == AddEq(Given(a2, "d2", "A", sg * acc.sol[t]), Sym("d2"), Sym("der(xd)"))
         IN  IF sg = 1 THEN AddEq(a3, Sym("d1"), Sym("d2")) ELSE AddEq(a3, MkAdd(Sym("d1"), Sym("d2")), Lit(0))

(* step 7: initial equations *)
AddIni(acc, b) ==
    LET sts == SelectSeq(acc.order, LAMBDA x : acc.cat[x] = "S")
        a1 == IF b.ini = 0 THEN acc
              ELSE LET F[i \in 0..Len(sts)] ==
                         IF i = 0 THEN acc
                         ELSE IF i = 1 /\ b.ini = 3 /\ Pars(b) # <<>>
                              THEN LET p == Pars(b)[Len(Pars(b))].n
                                   IN AddIEq(F[i-1], Sym(sts[i]), MkAdd(Sym(p), Lit(acc.sol[sts[i]] - acc.sol[p])))
                              ELSE AddIEq(F[i-1], Sym(sts[i]), Lit(acc.sol[sts[i]]))
                   IN F[Len(sts)]
        extra == IF b.ini # 2 THEN <<>>
                 ELSE (IF AliTab[b.ali] # <<>> THEN <<AliasName[Len(AliTab[b.ali])]>> ELSE <<>>)
                   \o (IF ElimTab[b.elim] # <<>> /\ ElimTab[b.elim][1].f # 5 THEN <<ElimTab[b.elim][1].n>> ELSE <<>>)
                   \o (IF CstTab[b.cst] # <<>> THEN <<"w1">> ELSE <<>>)
        G[i \in 0..Len(extra)] ==
            IF i = 0 THEN a1
            ELSE AddIEq(G[i-1], MkMul(Lit(2), Sym(extra[i])), Lit(2 * acc.sol[extra[i]]))
    IN  G[Len(extra)]

(* C16 family: one alias class with metadata.  meta = 0 for the C14/C15 families; meta = i > 0 selects entry i
   of IOEnv.META_FILE (drawn by the harness from the seed; the model and every expected value are derived here):
     [tgt: "S" | "A" | "I" | "D"   what the chain hangs on (state x1, algebraic a1, input u1, derivative der(x1)),
      links: <<[s: sign, f: spelling, to: 0 (the target) | k (the earlier alias v_k)], ...>>   alias variables v1, v2, ...
      perm:  the order in which the alias equations are written (a permutation of 1..Len(links))
      attrs: <<[min, max, nom, fixed, sset, start], ...>>   for the target (not for "D") and v1, v2, ... ]  *)
MetaFile == JsonDeserialize(IOEnv.META_FILE)
AttrOf(r) == [min |-> r.min, max |-> r.max, nom |-> r.nom, fixed |-> r.fixed, sset |-> r.sset, start |-> r.start]
BuildMeta(e) ==
    LET a1 == IF e.tgt = "A" THEN Free(Acc0, "a1", "A")
              ELSE IF e.tgt = "I" THEN Free(Acc0, "u1", "I")
              ELSE Free(Free(Acc0, "x1", "S"), "der(x1)", "D")
        tname == CASE e.tgt = "A" -> "a1" [] e.tgt = "I" -> "u1" [] e.tgt = "S" -> "x1" [] e.tgt = "D" -> "der(x1)"
        a2 == CASE e.tgt = "A" -> LET q == RowEq(<<MkMul(Lit(3), Sym("a1"))>>, 1, a1.sol) IN AddEq(a1, q.l, q.r)
                [] e.tgt = "I" -> a1
                [] OTHER -> LET q == RowEq(<<Sym("der(x1)"), Sym("x1")>>, 1, a1.sol) IN AddEq(a1, q.l, q.r)
        F[i \in 0..Len(e.links)] ==
            IF i = 0 THEN a2
            ELSE LET v == AliasName[i]
                     t == IF e.links[i].to >= 1 /\ e.links[i].to < i THEN AliasName[e.links[i].to] ELSE tname
                     q == AliasEq(v, t, e.links[i].s, e.links[i].f)
                 IN  AddEq(Given(F[i - 1], v, "A", e.links[i].s * F[i - 1].sol[t]), q.l, q.r)
        a3 == [F[Len(e.links)] EXCEPT !.eqs = PermuteTail(@, Len(e.links), e.perm)]
        lastv == AliasName[Len(e.links)]
        a4 == AddEq(Given(a3, "z", "A", 2 * a3.sol[lastv] + 1), Sym("z"), MkAdd(MkMul(Lit(2), Sym(lastv)), Lit(1)))
        named == IF e.tgt = "D" THEN [i \in 1..Len(e.links) |-> AliasName[i]]
                 ELSE <<tname>> \o [i \in 1..Len(e.links) |-> AliasName[i]]
    IN  [a4 EXCEPT !.attr = TLCEval([x \in DOMAIN @ |->
                               IF \E i \in DOMAIN named : named[i] = x
                               THEN AttrOf(e.attrs[CHOOSE i \in DOMAIN named : named[i] = x]) ELSE @[x]])]

Build(b) ==
    IF b.meta # 0 THEN BuildMeta(MetaFile[b.meta]) ELSE
    LET a1 == AddCore(Acc0, b, 1)
        a2 == AddPars(a1, Pars(b), 1)
        a3 == LET x == AddAli(a2, b, AliTab[b.ali], 1, "")
                  n == Len(AliTab[b.ali])
              IN  [x EXCEPT !.eqs = PermuteTail(@, n, PermOf(n, b.perm))]
        a4 == AddCst(a3, b, CstTab[b.cst], 1)
        a5 == AddElim(a4, b, ElimTab[b.elim], 1, "")
        a6 == AddDne(AddEsRow(AddRows(a5, b, 1), b), b)
        a7 == IF b.rev = 1 THEN [a6 EXCEPT !.eqs = TLCEval(Reverse(@))] ELSE a6
    IN  AddIni(a7, b)

Resid(es) == TLCEval([i \in DOMAIN es |-> MkSub(es[i].l, es[i].r)])     \* generator.exitEquation: lhs - rhs

(* the value the derivative of y must take when the eliminable STATE e_s = R(y, ...) is replaced:
   der(e_s) = dR/dy * der(y) + sum over states dR/dx * der(x)   (get_derivative in model.py) *)
ExtSol(b, acc) ==
    LET es == ElimTab[b.elim] IN
    IF es # <<>> /\ es[1].f = 5
    THEN LET R  == ElimRhs(b, es[1].r, "")
             dy == DEval(R, "y", acc.sol)          \* +-1
             others == {x \in Syms(R) \ {"y"} : acc.cat[x] = "S"}
             rest == LET G[S \in SUBSET others] ==
                            IF S = {} THEN 0
                            ELSE LET x == CHOOSE z \in S : TRUE
                                 IN DEval(R, x, acc.sol) * acc.sol[DerOf(x)] + G[S \ {x}]
                     IN G[others]
         IN  Ext(acc.sol, "der(y)", dy * (acc.sol[DerOf("e_s")] - rest))
    ELSE acc.sol

BaseBP == [core |-> 4, ali |-> 1, cst |-> 1, par |-> 1, elim |-> 1, ini |-> 0, row |-> 1, use |-> 1, rev |-> 0, dne |-> 0, perm |-> 0, meta |-> 0]
(* one knob at a time around two centres, plus a block of rich combinations *)
Centres == {BaseBP,
            [core |-> 8, ali |-> 12, cst |-> 4, par |-> 10, elim |-> 7, ini |-> 2, row |-> 2, use |-> 2, rev |-> 1, dne |-> 0, perm |-> 0, meta |-> 0],
            [core |-> 5, ali |-> 15, cst |-> 11, par |-> 8, elim |-> 12, ini |-> 3, row |-> 3, use |-> 3, rev |-> 0, dne |-> 0, perm |-> 0, meta |-> 0],
            [core |-> 3, ali |-> 23, cst |-> 10, par |-> 12, elim |-> 1, ini |-> 0, row |-> 1, use |-> 1, rev |-> 0, dne |-> 0, perm |-> 0, meta |-> 0]}
BaseBPs ==
    UNION {   {[c EXCEPT !.core = i] : i \in 1..Len(CoreTab)}
         \cup {[c EXCEPT !.ali = i] : i \in 1..Len(AliTab)}
         \cup {[c EXCEPT !.cst = i] : i \in 1..Len(CstTab)}
         \cup {[c EXCEPT !.par = i] : i \in 1..Len(ParTab)}
         \cup {[c EXCEPT !.elim = i] : i \in 1..Len(ElimTab)}
         \cup {[c EXCEPT !.ini = i] : i \in IniDom}
         \cup {[c EXCEPT !.row = i] : i \in RowDom}
         \cup {[c EXCEPT !.use = i] : i \in 1..Len(UseTab)}
         \cup {[c EXCEPT !.rev = i] : i \in 0..1}
         \cup {[c EXCEPT !.dne = i] : i \in 0..2}
         \cup {[c EXCEPT !.perm = i] : i \in 0..5}
         \cup {[c EXCEPT !.ali = i, !.perm = k] : i \in 25..28, k \in 0..5} : c \in Centres}

(* the shapes at which the as-built switches matter: constants defined by expressions, aliases that only
   become visible in a later iteration *)
DirectedBPs ==
    LET c4 == [core |-> 3, ali |-> 23, cst |-> 10, par |-> 12, elim |-> 1, ini |-> 0, row |-> 1, use |-> 1, rev |-> 0, dne |-> 0, perm |-> 0, meta |-> 0]
    IN  {[c4 EXCEPT !.ali = i] : i \in {2, 3, 12, 23, 24}}
   \cup {[c4 EXCEPT !.core = i] : i \in 1..Len(CoreTab)}
   \cup {[c4 EXCEPT !.row = i] : i \in RowDom} \cup {[c4 EXCEPT !.rev = 1], [c4 EXCEPT !.ini = 2], [c4 EXCEPT !.elim = 2]}
   \cup {[BaseBP EXCEPT !.par = i] : i \in {7, 8, 9, 10, 11}}
   \cup {[BaseBP EXCEPT !.par = i, !.ini = 3, !.ali = 21] : i \in {8, 9, 10}}
   \cup {[BaseBP EXCEPT !.ali = 20, !.par = 3], [BaseBP EXCEPT !.ali = 20, !.par = 2]}

FileBPs == LET f == JsonDeserialize(IOEnv.BP_FILE) IN {f[i] : i \in DOMAIN f}

PairGroups == LET f == JsonDeserialize(IOEnv.PAIR_FILE) IN {f[i] : i \in DOMAIN f}
Groups == CASE Family = "base" -> {[bp |-> b, optsets |-> <<>>] : b \in BaseBPs}
            [] Family = "centres" -> {[bp |-> b, optsets |-> <<>>] : b \in Centres}
            [] Family = "directed" -> {[bp |-> b, optsets |-> <<>>] : b \in DirectedBPs}
            [] Family = "file" -> {[bp |-> b, optsets |-> <<>>] : b \in FileBPs}
            [] Family = "pairs" -> PairGroups
            [] Family = "meta" -> {[bp |-> [BaseBP EXCEPT !.meta = i], optsets |-> <<>>] : i \in DOMAIN MetaFile}
OptsOf(g) == IF Family = "pairs" THEN {ToSet(g.optsets[i]) : i \in DOMAIN g.optsets} ELSE OptSets

(* the blueprint describes a model with a unique solution *)
Admissible(m) == Regular(Resid(m.eqs), m.cat, m.sol)

-----------------------------------------------------------------------------
Has(o) == o \in opts

Init ==
    /\ \E g \in Groups :
       /\ bp = g.bp
       /\ bp \in BPSpace
       /\ \E m \in {Build(bp)} :      \* (singleton quantification makes TLC evaluate Build once per blueprint)
         /\ Admissible(m)
         /\ opts \in OptsOf(g)
         /\ opts \subseteq AllOptions
         /\ sol = ExtSol(bp, m)
         /\ cat = TLCEval(m.cat)
         /\ val = TLCEval(m.val)
         /\ attr = TLCEval(m.attr)
         /\ eqs = Resid(m.eqs)
         /\ ieqs = Resid(m.ieqs)
         \* (state variables always get fully evaluated values: TLC cannot write lazily defined functions to its disk queue)
         /\ orig = [cat |-> TLCEval(m.cat), order |-> TLCEval(m.order), val |-> TLCEval(m.val), eqs |-> TLCEval(m.eqs),
                    ieqs |-> TLCEval(m.ieqs), attr |-> TLCEval(m.attr)]
    /\ rel = {}
    /\ newc = [x \in {} |-> 0]
    /\ pc = 1 /\ iter = 1 /\ algLeft = 0 /\ status = "run" /\ nonaffine = FALSE /\ hazard = {}
    /\ last = [pass |-> "init"]

Live == DOMAIN cat
A == NamesOf(cat, {"A"})
S == NamesOf(cat, {"S"})
Balance0(c, E) == Cardinality(NamesOf(c, {"S", "A"})) - Len(E)

Step(name) == /\ status = "run" /\ pc <= Len(Passes) /\ Passes[pc] = name
              /\ pc' = pc + 1
              /\ last' = [pass |-> name, iter |-> iter]
              /\ UNCHANGED <<bp, opts, sol, orig, iter, algLeft>>

Skip == UNCHANGED <<cat, val, attr, eqs, ieqs, rel, newc, status, nonaffine>>

(* ---- expand_vectors (+ SX round trip): scalar models, nothing to do ---- *)
ExpandVectorsSX == Step("expand_vectors_sx") /\ Skip
ExpandVectorsMX == Step("expand_vectors_mx") /\ Skip

(* ---- substitution of a map into everything the code substitutes into ---- *)
SubstVals(v, m) == TLCEval([x \in DOMAIN v |-> Subst(v[x], m)])

(* resolve chains  x := f(y), y := g(z) ...  as the code does: substitute the values into the values
   until nothing changes (SUBSTITUTE_LOOP_LIMIT is far above the chain lengths used here) *)
RECURSIVE Resolve(_, _)
Resolve(m, fuel) ==
    LET m2 == TLCEval([x \in DOMAIN m |-> Subst(m[x], m)])
    IN  IF m2 = m \/ fuel = 0 THEN m2 ELSE Resolve(m2, fuel - 1)

(* ---- resolve_parameter_values: metadata only ---- *)
RECURSIVE ResolveVals(_, _, _)
ResolveVals(v, todo, fuel) ==
    LET num == {x \in todo : IsRegular(v[x])}
    IN  IF num = {} \/ fuel = 0 THEN v
        ELSE ResolveVals(SubstVals(v, [x \in num |-> v[x]]), todo \ num, fuel - 1)
ResolveParameterValues ==
    /\ Step("resolve_parameter_values")
    /\ IF Has("resolve_parameter_values")
       THEN /\ val' = ResolveVals(val, DOMAIN val, 10)
            /\ UNCHANGED <<cat, attr, eqs, ieqs, rel, newc, status, nonaffine>>
       ELSE Skip

(* ---- replace_parameter_expressions / replace_constant_expressions ---- *)
ReplaceExpressions(c) ==
    \E names \in {{x \in NamesOf(cat, {c}) : ~IsConstTree(val[x])}} :
    \E m \in {Resolve(TLCEval([x \in names |-> val[x]]), 10)} :
        /\ cat' = TLCEval(Restrict(cat, Live \ names))
        /\ val' = SubstVals(Restrict(val, DOMAIN val \ names), m)
        /\ attr' = TLCEval(Restrict(attr, Live \ names))
        /\ eqs' = SubstSeq(eqs, m)
        /\ ieqs' = SubstSeq(ieqs, m)
        /\ UNCHANGED <<rel, newc, status, nonaffine>>
ReplaceParameterExpressions ==
    /\ Step("replace_parameter_expressions")
    /\ IF Has("replace_parameter_expressions") THEN ReplaceExpressions("P") ELSE Skip
ReplaceConstantExpressions ==
    /\ Step("replace_constant_expressions")
    /\ IF Has("replace_constant_expressions") THEN ReplaceExpressions("K") ELSE Skip

(* ---- eliminate_constant_assignments ---- *)
(* the pattern of the code: bare algebraic symbol, or OP_SUB/OP_ADD of an algebraic symbol and a constant *)
CAMatch(e, algs) ==
    IF IsSym(e) /\ e.n \in algs THEN [n |-> e.n, v |-> 0]
    ELSE IF e.k \in {"add", "sub"} /\ IsSym(e.a[1]) /\ e.a[1].n \in algs /\ IsLit(e.a[2])
         THEN [n |-> e.a[1].n, v |-> IF e.k = "sub" THEN e.a[2].v ELSE -e.a[2].v]
    ELSE IF e.k \in {"add", "sub"} /\ IsSym(e.a[2]) /\ e.a[2].n \in algs /\ IsLit(e.a[1])
         THEN [n |-> e.a[2].n, v |-> IF e.k = "sub" THEN e.a[1].v ELSE -e.a[1].v]
    ELSE [n |-> "", v |-> 0]
RECURSIVE ECAFold(_, _, _, _, _)     \* the loop over self.equations with the shrinking alg_states dict
ECAFold(es, i, algs, kept, found) ==
    IF i > Len(es) THEN [kept |-> kept, found |-> found]
    ELSE LET m == CAMatch(es[i], algs) IN
         IF m.n = "" THEN ECAFold(es, i + 1, algs, Append(kept, es[i]), found)
         ELSE ECAFold(es, i + 1, algs \ {m.n}, kept, Ext(found, m.n, m.v))
EliminateConstantAssignments ==
    /\ Step("eliminate_constant_assignments")
    /\ IF Has("eliminate_constant_assignments")
       THEN \E r \in {ECAFold(eqs, 1, A, <<>>, [x \in {} |-> 0])} :
            /\ eqs' = r.kept
            /\ cat' = TLCEval([x \in Live |-> IF x \in DOMAIN r.found THEN "K" ELSE cat[x]])
            /\ val' = TLCEval([x \in DOMAIN val \cup DOMAIN r.found |->
                          IF x \in DOMAIN r.found THEN Lit(r.found[x]) ELSE val[x]])
            /\ newc' = TLCEval([x \in DOMAIN newc \cup DOMAIN r.found |->
                          IF x \in DOMAIN r.found THEN r.found[x] ELSE newc[x]])
            /\ UNCHANGED <<attr, ieqs, rel, status, nonaffine>>
       ELSE Skip

(* ---- replace_parameter_values ---- *)
ReplaceParameterValues ==
    /\ Step("replace_parameter_values")
    /\ IF Has("replace_parameter_values")
       THEN \E names \in {{x \in NamesOf(cat, {"P"}) : IsRegular(val[x])}} :
            \E m \in {TLCEval([x \in names |-> val[x]])} :
                /\ cat' = TLCEval(Restrict(cat, Live \ names))
                /\ val' = SubstVals(Restrict(val, DOMAIN val \ names), m)
                /\ attr' = TLCEval(Restrict(attr, Live \ names))
                /\ eqs' = SubstSeq(eqs, m)
                /\ ieqs' = SubstSeq(ieqs, m)
                /\ UNCHANGED <<rel, newc, status, nonaffine>>
       ELSE Skip

(* ---- replace_constant_values ---- *)
ReplaceConstantValues ==
    /\ Step("replace_constant_values")
    /\ IF Has("replace_constant_values")
       THEN \E names \in {NamesOf(cat, {"K"})} :
            \E m0 \in {TLCEval([x \in names |-> val[x]])} :
            \E m \in {IF ConstValuesResolved THEN Resolve(m0, 10) ELSE m0} :
            \E gone \in {UNION {BlockOf(rel, <<x, 1>>) \cup BlockOf(rel, <<x, -1>>) :
                                 x \in {z \in names : \E b \in rel : <<z, 1>> \in b}}} :
                /\ cat' = TLCEval(Restrict(cat, Live \ names))
                /\ val' = SubstVals(Restrict(val, DOMAIN val \ names), m)
                /\ attr' = TLCEval(Restrict(attr, Live \ names))
                /\ eqs' = SubstSeq(eqs, m)
                /\ ieqs' = SubstSeq(ieqs, m)
                /\ rel' = {b \in rel : b \cap gone = {}}
                /\ UNCHANGED <<newc, status, nonaffine>>
       ELSE Skip

(* ---- eliminable_variable_expression (regular expression: prefix e_) ---- *)
Eliminable(x) == x \in {"e_1", "e_2", "e_3", "e_s"}     \* the names matching the regular expression e_.*
(* extract_assignment: bare symbol; or OP_SUB/OP_ADD with a matching symbol on one side,
   algebraic states preferred over differentiated states *)
EAMatch(e, algs, sts) ==
    IF IsSym(e) /\ e.n \in algs \cup sts /\ Eliminable(e.n) THEN [n |-> e.n, v |-> Lit(0)]
    ELSE IF e.k \in {"add", "sub"}
    THEN LET d1 == e.a[1]  d2 == e.a[2]
             ok(d, V) == IsSym(d) /\ d.n \in V /\ Eliminable(d.n)
             pick == IF ok(d1, algs) THEN 1 ELSE IF ok(d2, algs) THEN 2
                     ELSE IF ok(d1, sts) THEN 1 ELSE IF ok(d2, sts) THEN 2 ELSE 0
             other == IF pick = 1 THEN d2 ELSE d1
         IN  IF pick = 0 THEN [n |-> "", v |-> Lit(0)]
             ELSE [n |-> e.a[pick].n, v |-> IF e.k = "sub" THEN other ELSE MkNeg(other)]
    ELSE [n |-> "", v |-> Lit(0)]

(* get_derivative: algebraic states met while differentiating become differentiated states *)
DerivOf(v, c) ==        \* [d |-> derivative tree, promoted |-> set of algebraic names that became states]
    LET deps == Syms(v)
        pro == {x \in deps : CatOf(c, x) = "A"}
        term(x) == IF CatOf(c, x) \in {"S", "A"} THEN MkMul(DTree(v, x), Sym(DerOf(x))) ELSE Lit(0)
        sum == LET G[T \in SUBSET deps] == IF T = {} THEN Lit(0)
                                           ELSE LET x == CHOOSE z \in T : TRUE IN MkAdd(term(x), G[T \ {x}])
               IN G[deps]
    IN  [d |-> sum, promoted |-> pro]

RECURSIVE EVFold(_, _, _, _, _)     \* loop over the equations; c is the evolving category map
EVFold(es, i, c, kept, m) ==
    IF i > Len(es) THEN [kept |-> kept, m |-> m, cat |-> c]
    ELSE LET r == EAMatch(es[i], NamesOf(c, {"A"}), NamesOf(c, {"S"})) IN
         IF r.n = "" THEN EVFold(es, i + 1, c, Append(kept, es[i]), m)
         ELSE IF c[r.n] = "S"
              THEN LET dv == DerivOf(r.v, c)
                       c1 == [x \in (DOMAIN c \cup {DerOf(y) : y \in dv.promoted}) \ {r.n, DerOf(r.n)} |->
                                IF x \in dv.promoted THEN "S"
                                ELSE IF x \in DOMAIN c THEN c[x] ELSE "D"]
                   IN  EVFold(es, i + 1, c1, kept, Ext(Ext(m, r.n, r.v), DerOf(r.n), dv.d))
              ELSE EVFold(es, i + 1, Restrict(c, DOMAIN c \ {r.n}), kept, Ext(m, r.n, r.v))
EliminableVariables ==
    /\ Step("eliminable_variable_expression")
    /\ IF Has("eliminable_variable_expression")
       THEN IF ~Has("expand_mx")
            THEN /\ status' = "raised"      \* "requires expand_mx": reported failure
                 /\ UNCHANGED <<cat, val, attr, eqs, ieqs, rel, newc, nonaffine>>
            ELSE \E r \in {EVFold(eqs, 1, cat, <<>>, [x \in {} |-> Lit(0)])} :
                 \E m \in {Resolve(r.m, 10)} :
                     /\ cat' = TLCEval(r.cat)
                     /\ attr' = TLCEval([x \in DOMAIN r.cat |-> IF x \in DOMAIN attr THEN attr[x] ELSE DefaultAttr])
                     /\ eqs' = SubstSeq(r.kept, m)
                     /\ ieqs' = SubstSeq(ieqs, m)
                     /\ UNCHANGED <<val, rel, newc, status, nonaffine>>
       ELSE Skip

(* ---- factor_and_simplify_equations ---- *)
(* OP_NEG is dropped, a constant factor is dropped; CasADi represents 2*x as the unary OP_TWICE,
   which is not in the code's list, so a factor 2 stays *)
RECURSIVE Factor(_)
Factor(e) ==
    IF e.k = "neg" THEN Factor(e.a[1])
    ELSE IF e.k = "mul" /\ IsLit(e.a[1]) /\ e.a[1].v # 2 THEN Factor(e.a[2])
    ELSE e
FactorAndSimplify ==
    /\ Step("factor_and_simplify_equations")
    /\ IF Has("factor_and_simplify_equations")
       THEN /\ eqs' = TLCEval([i \in DOMAIN eqs |-> Factor(eqs[i])])
            /\ UNCHANGED <<cat, val, attr, ieqs, rel, newc, status, nonaffine>>
       ELSE Skip

(* ---- detect_aliases ---- *)
DNE(c) == NamesOf(c, {"S", "D", "I", "P", "K"})

(* _detect_alias.  Fast path: OP_SUB/OP_ADD of two symbols.  Slow path (substitute and test): an equation
   over exactly two names (or two names besides parameters/constants) that vanishes under x := y or
   x := -y.  Whether CasADi's is_zero() sees the cancellation depends on node identity, so for slow-path
   candidates both outcomes are admissible.  Result: set of [x, y, neg, sure]. *)
AliasCands(e, c) ==
    LET ds == Syms(e)
        np == {x \in ds : CatOf(c, x) \notin {"P", "K"}}
        fast == e.k \in {"add", "sub"} /\ IsSym(e.a[1]) /\ IsSym(e.a[2]) /\ Cardinality(ds) = 2
    IN  IF fast THEN {[x |-> e.a[1].n, y |-> e.a[2].n, neg |-> e.k = "add", sure |-> TRUE]}
        ELSE LET pairs == (IF Cardinality(ds) = 2 THEN {ds} ELSE {}) \cup (IF Cardinality(np) = 2 THEN {np} ELSE {})
             IN  UNION {LET x == CHOOSE z \in d : TRUE
                            y == CHOOSE z \in d : z # x
                            \* vanishing under x := y: tested at three values of y (degree in y is at most 2 in these families)
                            pos == Subst(e, [z \in {x} |-> Sym(y)])
                            ng  == Subst(e, [z \in {x} |-> MkNeg(Sym(y))])
                            zero(t) == /\ TRUE
                                       /\ \A s1 \in {sol, [sol EXCEPT ![y] = @ + 1], [sol EXCEPT ![y] = @ + 2]} :
                                             Eval(t, s1) = 0
                        IN  IF zero(pos) THEN {[x |-> x, y |-> y, neg |-> FALSE, sure |-> FALSE]}
                            ELSE IF zero(ng) THEN {[x |-> x, y |-> y, neg |-> TRUE, sure |-> FALSE]}
                            ELSE {} : d \in pairs}

(* _make_alias on (d0, d1) in the given order.  canon: name -> canonical name of its class.
   Returns [ok, keep, elim] : ok = the equation is dropped and elim is aliased to keep. *)
CanonName(cn, x) == IF x \in DOMAIN cn THEN cn[x] ELSE x
MakeAlias(d0, d1, c, cn) ==
    LET algs == NamesOf(c, {"A"})
        dne == DNE(c)
        a0 == IF d0 \in algs THEN d0 ELSE IF d1 \in algs THEN d1 ELSE ""
        o0 == IF d0 \in algs THEN d1 ELSE IF d1 \in algs THEN d0 ELSE ""
        swap == d0 \in algs /\ d1 \in algs /\ CanonName(cn, a0) \in dne
        a == IF swap THEN o0 ELSE a0
        o == IF swap THEN a0 ELSE o0
    IN  IF a = "" THEN [ok |-> FALSE, keep |-> "", elim |-> ""]
        ELSE IF ~Has("allow_derivative_aliases") /\ (CatOf(c, a) = "D" \/ CatOf(c, o) = "D")
             THEN [ok |-> FALSE, keep |-> "", elim |-> ""]
        ELSE IF CanonName(cn, a) \in dne /\ CanonName(cn, o) \in dne
             THEN [ok |-> FALSE, keep |-> "", elim |-> ""]
        ELSE [ok |-> TRUE, keep |-> o, elim |-> a]

(* the loop over the equations: state of the loop = (kept equations, relation, canonical map, adds) *)
SignedName(x, s) == <<x, s>>
RECURSIVE DAFold(_, _, _, _, _, _)
DAFold(es, i, kept, R, cn, adds) ==
    \* returns the SET of admissible outcomes
    IF i > Len(es) THEN {[kept |-> kept, rel |-> R, cn |-> cn, adds |-> adds]}
    ELSE LET cands == AliasCands(es[i], cat)
             keepIt == DAFold(es, i + 1, Append(kept, es[i]), R, cn, adds)
         IN  IF cands = {} THEN keepIt
             ELSE UNION { LET tries == {MakeAlias(cd.x, cd.y, cat, cn), MakeAlias(cd.y, cd.x, cat, cn)} IN
                          UNION { IF ~t.ok THEN keepIt
                                  ELSE LET sg == IF cd.neg THEN -1 ELSE 1
                                           xk == <<t.keep, 1>>
                                           xe == <<t.elim, sg>>
                                           same == xe \in BlockOf(R, xk)
                                           R2 == IF same THEN R ELSE AddTo(R, xk, xe)
                                           ck == CanonName(cn, t.keep)
                                           blk == {z[1] : z \in BlockOf(R2, xk)}
                                           cn2 == [z \in DOMAIN cn \cup blk |-> IF z \in blk THEN ck ELSE cn[z]]
                                       IN  IF ~Consistent(R, xk, xe) THEN {}   \* would relate a name to its own negation:
                                                                               \* impossible for a regular model
                                           ELSE DAFold(es, i + 1, kept, R2, cn2,
                                                       Append(adds, [x |-> xk, y |-> xe]))
                                              \cup (IF cd.sure THEN {} ELSE keepIt)
                                : t \in tries } : cd \in cands }

(* C16: the declarative merge.  Members of the class of c with their sign relative to c *)
ClassOf(R, c) == BlockOf(R, <<c, 1>>)
MergedMin(at, R, c)  == Max({IF z[2] = 1 THEN at[z[1]].min ELSE -at[z[1]].max : z \in ClassOf(R, c)})
MergedMax(at, R, c)  == Min({IF z[2] = 1 THEN at[z[1]].max ELSE -at[z[1]].min : z \in ClassOf(R, c)})
MergedNom(at, R, c)  == Max({at[z[1]].nom : z \in ClassOf(R, c)})
MergedFix(at, R, c)  == \E z \in ClassOf(R, c) : at[z[1]].fixed
MergedStarts(at, R, c) ==      \* set of admissible [sset, start]
    IF at[c].sset THEN {[sset |-> TRUE, start |-> at[c].start]}
    ELSE LET ex == {z \in ClassOf(R, c) : at[z[1]].sset}
         IN  IF ex = {} THEN {[sset |-> FALSE, start |-> 0]}
             ELSE {[sset |-> TRUE, start |-> z[2] * at[z[1]].start] : z \in ex}
Merged(at, R, c) == [min |-> MergedMin(at, R, c), max |-> MergedMax(at, R, c), nom |-> MergedNom(at, R, c),
                     fixed |-> MergedFix(at, R, c), starts |-> MergedStarts(at, R, c)]

(* the operational merge of the code: fold over the new aliases of a canonical variable, one at a time *)
MergeOne(a, al, sg) ==
    [min   |-> Max({a.min, IF sg = 1 THEN al.min ELSE -al.max}),
     max   |-> Min({a.max, IF sg = 1 THEN al.max ELSE -al.min}),
     nom   |-> Max({a.nom, al.nom}),
     fixed |-> a.fixed \/ al.fixed,
     sset  |-> a.sset \/ al.sset,
     start |-> IF a.sset THEN a.start ELSE IF al.sset THEN sg * al.start ELSE a.start]
RECURSIVE MergeSeq(_, _, _)
MergeSeq(a, at, zs) == IF zs = <<>> THEN a
                       ELSE MergeSeq(MergeOne(a, at[Head(zs)[1]], Head(zs)[2]), at, Tail(zs))

DetectAliases ==
    /\ Step("detect_aliases")
    /\ IF Has("detect_aliases")
       THEN IF \E b \in rel : \A z \in b : z[1] \notin Live
            THEN \* a class recorded by an earlier detect_aliases pass lost its canonical variable (a parameter that
                 \* was replaced since): the code fails with KeyError in  all_states[canonical]  - reported failure
                 /\ status' = "raised"
                 /\ UNCHANGED <<cat, val, attr, eqs, ieqs, rel, newc, nonaffine>>
            ELSE
            \E r \in DAFold(eqs, 1, <<>>, rel, [x \in {z[1] : z \in UNION rel} |->
                                  \* canonical names of the classes of earlier passes: the surviving member
                                  CHOOSE y \in {z[1] : z \in BlockOf(rel, <<x, 1>>) \cup BlockOf(rel, <<x, -1>>)} : y \in Live],
                            <<>>) :
            LET canons == {r.cn[x] : x \in DOMAIN r.cn}
                \* aliases of a canonical variable that are still live variables (new in this pass)
                inOld(y) == \E b \in rel : <<y, 1>> \in b \/ <<y, -1>> \in b
                newOf(c) == {z \in ClassOf(r.rel, c) : z[1] # c /\ z[1] \in Live
                               /\ (OldAliasSignStripped \/ z[2] = 1 \/ ~inOld(z[1]))}
                gone == UNION {{z[1] : z \in newOf(c)} : c \in canons}
                m == TLCEval([x \in gone |-> LET c == r.cn[x]
                                                 sg == (CHOOSE z \in ClassOf(r.rel, c) : z[1] = x)[2]
                                             IN IF sg = 1 THEN Sym(c) ELSE MkNeg(Sym(c))])
            IN  /\ rel' = r.rel
                /\ cat' = TLCEval(Restrict(cat, Live \ gone))
                /\ LET startChoices(c) ==        \* the aliases are iterated as a Python set: any explicit one may come first
                           IF attr[c].sset THEN {[sset |-> TRUE, start |-> attr[c].start]}
                           ELSE LET ex == {z \in newOf(c) : attr[z[1]].sset} IN
                                IF ex = {} THEN {[sset |-> FALSE, start |-> attr[c].start]}
                                ELSE {[sset |-> TRUE, start |-> z[2] * attr[z[1]].start] : z \in ex}
                   IN  \E st \in [canons -> UNION {startChoices(c) : c \in canons}] :
                         /\ \A c \in canons : st[c] \in startChoices(c)
                         /\ attr' = TLCEval([x \in Live \ gone |->
                                       IF x \in canons
                                       THEN [MergeSeq(attr[x], attr, SetToSeq(newOf(x)))
                                               EXCEPT !.sset = st[x].sset, !.start = st[x].start]
                                       ELSE attr[x]])
                /\ val' = val
                /\ \E mm \in {m} : eqs' = SubstSeq(r.kept, mm) /\ ieqs' = SubstSeq(ieqs, mm)
                /\ UNCHANGED <<newc, status, nonaffine>>
       ELSE Skip

(* ---- reduce_affine_expression: E := A*v + b with A = dE/dv at v = 0, b = E at v = 0 ---- *)
AffineForm(es, c) ==
    LET V == NamesOf(c, {"S", "D", "A", "I"})
        vs == SetToSeq(V)
        zero == [x \in V |-> Lit(0)]
        row(e) == LET terms == [j \in 1..Len(vs) |-> MkMul(Subst(DTree(e, vs[j]), zero), Sym(vs[j]))]
                  IN MkAdd(SumSeq(terms, 1), Subst(e, zero))
    IN  TLCEval([i \in DOMAIN es |-> row(es[i])])
IsAffine(es, c) == \A i \in DOMAIN es : Deg(es[i], NamesOf(c, {"S", "D", "A", "I"})) <= 1
ReduceAffine ==
    /\ Step("reduce_affine_expression")
    /\ IF Has("reduce_affine_expression")
       THEN /\ eqs' = AffineForm(eqs, cat)
            /\ ieqs' = AffineForm(ieqs, cat)
            /\ nonaffine' = (nonaffine \/ ~IsAffine(eqs, cat) \/ ~IsAffine(ieqs, cat))
            /\ UNCHANGED <<cat, val, attr, rel, newc, status>>
       ELSE Skip

ExpandMX == Step("expand_mx") /\ Skip

(* ---- end of _simplify_once: simplify() repeats while the number of algebraic states changes ---- *)
EndOnce ==
    /\ status = "run" /\ pc = Len(Passes) + 1
    /\ UNCHANGED <<bp, opts, sol, orig, cat, val, attr, eqs, ieqs, rel, newc, nonaffine, hazard>>
    /\ last' = [pass |-> "end", iter |-> iter]
    /\ IF Has("iterative_simplification") /\ algLeft # Cardinality(A) /\ iter < 4
       THEN /\ pc' = 1 /\ iter' = iter + 1 /\ algLeft' = Cardinality(A)
            \* As built, a further iteration cannot cope with what two passes leave behind and ends in an exception
            \* (reported failure; the spec does not say in which pass):
            \*   - after reduce_affine_expression the equations are one vector expression over fresh vector symbols
            \*     (AssertionError in the SX round trip, or free variables in reduce_affine_expression's own functions);
            \*   - a derivative symbol created by eliminable_variable_expression has no _modelica_shape, which
            \*     _expand_vectors reads (AttributeError) when expand_vectors is on.
            /\ status' = IF "affined" \in hazard \/ ("new-derivative" \in hazard /\ Has("expand_vectors"))
                         THEN "raised" ELSE "run"
       ELSE /\ pc' = pc /\ iter' = iter /\ algLeft' = algLeft /\ status' = "done"

PassNext == \/ ExpandVectorsSX \/ ResolveParameterValues \/ ReplaceParameterExpressions
            \/ ReplaceConstantExpressions \/ EliminateConstantAssignments \/ ReplaceParameterValues
            \/ ReplaceConstantValues \/ EliminableVariables \/ ExpandVectorsMX \/ FactorAndSimplify
            \/ DetectAliases \/ ReduceAffine \/ ExpandMX
(* what a pass leaves behind that a LATER iteration of the real code cannot cope with (see EndOnce) *)
Hazards == hazard' = hazard
              \cup (IF last'.pass = "reduce_affine_expression" /\ Has("reduce_affine_expression") THEN {"affined"} ELSE {})
              \cup (IF last'.pass = "eliminable_variable_expression" /\ DOMAIN cat' \ DOMAIN cat # {}
                    THEN {"new-derivative"} ELSE {})
Next == (PassNext /\ Hazards) \/ EndOnce

Spec == Init /\ [][Next]_vars

-----------------------------------------------------------------------------
(* PROPERTIES *)

Required == status # "raised" /\ ~nonaffine      \* reported failure / violated precondition: nothing required

(* C14: the constructed solution, projected onto what is left, still solves the model, uniquely *)
SolutionPreserved ==
    Required =>
      /\ \A i \in DOMAIN eqs : Eval(eqs[i], sol) = 0
      /\ \A i \in DOMAIN ieqs : Eval(ieqs[i], sol) = 0
      /\ Regular(eqs, cat, sol)

(* C14: what simplification recorded about eliminated variables is true in the solution *)
RecordedEliminationsHold ==
    /\ \A b \in rel : \A y, z \in b : y[2] * sol[y[1]] = z[2] * sol[z[1]]
    /\ \A x \in DOMAIN newc : newc[x] = sol[x]
    /\ \A x \in DOMAIN val : (x \in Live /\ Syms(val[x]) \subseteq DOMAIN sol /\ val[x].k # "nan")
                                => Eval(val[x], sol) = sol[x]

(* C15: every remaining expression mentions live names only (the residual functions can be built) *)
SelfContained ==
    status # "raised" =>
      /\ SeqSyms(eqs) \subseteq Live
      /\ SeqSyms(ieqs) \subseteq Live
      /\ \A x \in DOMAIN val : x \in Live => Syms(val[x]) \subseteq Live

(* C15: each removed equation goes with exactly one removed unknown *)
Balance == [][Balance0(cat', eqs') = Balance0(cat, eqs)]_vars

(* C16: the attributes of every variable that stands for an alias class are the declarative merge of the
   ORIGINAL attributes over the class *)
MetadataMerged ==
    \A x \in Live : (\E b \in rel : <<x, 1>> \in b) =>
        LET mg == Merged(orig.attr, rel, x) IN
        /\ attr[x].min = mg.min /\ attr[x].max = mg.max /\ attr[x].nom = mg.nom /\ attr[x].fixed = mg.fixed
        /\ [sset |-> attr[x].sset, start |-> attr[x].start] \in mg.starts

TypeOK ==
    /\ DOMAIN val \subseteq DOMAIN orig.cat \cup DOMAIN newc
    /\ DOMAIN attr = Live
    /\ pc \in 1..Len(Passes) + 1

-----------------------------------------------------------------------------
(* Output for the harness *)
View == <<bp, opts, cat, val, attr, eqs, ieqs, rel, newc, pc, iter, algLeft, status, nonaffine, hazard>>

Summary(c, E, R) == [S |-> NamesOf(c, {"S"}), D |-> NamesOf(c, {"D"}), A |-> NamesOf(c, {"A"}),
                     I |-> NamesOf(c, {"I"}), P |-> NamesOf(c, {"P"}), K |-> NamesOf(c, {"K"}),
                     neq |-> Len(E), rel |-> R]

(* shape tags: the class of a program, used by the harness to group verdicts *)
Tags(b) ==
    IF b.meta # 0
    THEN LET e == MetaFile[b.meta] IN
         {"tgt:" \o e.tgt, "len:" \o ToString(Len(e.links))}
         \cup {IF e.links[i].s = 1 THEN "ali:pos" ELSE "ali:neg" : i \in DOMAIN e.links}
         \cup {"ali:f" \o ToString(e.links[i].f) : i \in DOMAIN e.links}
    ELSE
    LET al == AliTab[b.ali]  cs == CstTab[b.cst]  ps == Pars(b)  es == ElimTab[b.elim] IN
    {"core:" \o ToString(b.core), "row:" \o ToString(b.row), "ini:" \o ToString(b.ini)}
    \cup (IF al = <<>> THEN {"ali:none"}
          ELSE {"ali:len" \o ToString(Len(al))}
               \cup {IF al[i].s = 1 THEN "ali:pos" ELSE "ali:neg" : i \in DOMAIN al}
               \cup {"ali:f" \o ToString(al[i].f) : i \in DOMAIN al}
               \cup {"ali:t-" \o al[i].t : i \in DOMAIN al})
    \cup (IF cs = <<>> THEN {"cst:none"} ELSE {"cst:f" \o ToString(cs[i].f) : i \in DOMAIN cs})
    \cup (IF ps = <<>> THEN {"par:none"}
          ELSE {"par:" \o ps[i].c \o (IF ps[i].v.k = "nan" THEN "free" ELSE IF ps[i].v.k = "lit" THEN "num" ELSE "expr")
                  : i \in DOMAIN ps}
               \cup {"par:use-" \o ps[i].use : i \in DOMAIN ps})
    \cup (IF b.ini # 0 THEN {"has:ieqs"} ELSE {})
    \cup (IF b.dne # 0 THEN {"ali:dne-pair"} ELSE {})
    \cup (IF es = <<>> THEN {"elim:none"}
          ELSE {"elim:len" \o ToString(Len(es))}
               \cup {"elim:f" \o ToString(es[i].f) : i \in DOMAIN es}
               \cup {"elim:r-" \o es[i].r : i \in DOMAIN es})

Prog == [bp |-> bp, tags |-> Tags(bp),
         affine |-> IsAffine(Resid(orig.eqs), orig.cat) /\ IsAffine(Resid(orig.ieqs), orig.cat),
         vars |-> [i \in DOMAIN orig.order |->
                     LET x == orig.order[i] IN
                     [n |-> x, cat |-> orig.cat[x],
                      val |-> IF x \in DOMAIN orig.val THEN orig.val[x] ELSE NaN,
                      attr |-> orig.attr[x]]],
         eqs |-> orig.eqs, ieqs |-> orig.ieqs, sol |-> sol]

Violated(c, v, e, ie, R, nc, st, na, at) ==     \* names of the state predicates that fail in the given state
    LET req == st # "raised" /\ ~na IN
    (IF req /\ ~(/\ \A i \in DOMAIN e : Eval(e[i], sol) = 0
                 /\ \A i \in DOMAIN ie : Eval(ie[i], sol) = 0
                 /\ Regular(e, c, sol)) THEN {"SolutionPreserved"} ELSE {})
    \cup (IF ~(/\ \A b \in R : \A y, z \in b : y[2] * sol[y[1]] = z[2] * sol[z[1]]
               /\ \A x \in DOMAIN nc : nc[x] = sol[x]) THEN {"RecordedEliminationsHold"} ELSE {})
    \cup (IF st # "raised" /\ ~(SeqSyms(e) \subseteq DOMAIN c /\ SeqSyms(ie) \subseteq DOMAIN c)
          THEN {"SelfContained"} ELSE {})
    \cup (IF Balance0(c, e) # Balance0(cat, eqs) THEN {"Balance"} ELSE {})

Log == /\ (PrintProg /\ last.pass = "init") => PrintT(<<"PROG", ToJson(Prog)>>)
       /\ PrintCex =>
             \E vs \in {Violated(cat', val', eqs', ieqs', rel', newc', status', nonaffine', attr')} :
                (vs # {} /\ Violated(cat, val, eqs, ieqs, rel, newc, status, nonaffine, attr) \ {"Balance"} = {})
                   => PrintT(<<"CEX", ToJson([bp |-> bp, opts |-> opts, pass |-> last'.pass,
                                                   iter |-> iter, violated |-> vs])>>)
       /\ (PrintFin /\ status' # "run") =>
             PrintT(<<"FIN", ToJson([bp |-> bp, opts |-> opts, status |-> status', nonaffine |-> nonaffine',
                                     fin |-> Summary(cat', eqs', rel'),
                                     attr |-> [x \in {z \in DOMAIN attr' : \E b \in rel' : <<z, 1>> \in b} |-> attr'[x]]])>>)
=============================================================================
