\* state graph up to relation equivalence (ops hidden): every transition of the quotient, TR-log on
CONSTANTS Names = {"a","b","c"} MaxRel = 2 MaxOps = 1000
INIT Init
NEXT Next
VIEW ViewNoOps
ACTION_CONSTRAINT Log
INVARIANT WellFormed
CHECK_DEADLOCK FALSE
