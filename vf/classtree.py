"""Shared helpers of the ClassTree checks (C05, C06, C27): a small, logic-free renderer from the
library records printed by the TLA+ specs to Modelica text, and the observers that run the real
pymoca entry points and reduce their results to comparable outcomes.

Trusted base: nothing in here knows what a result should be - outcomes are only ever compared
with other outcomes of the real code (differential oracle) or with values printed by TLC."""
import hashlib
import importlib.util
import io
import json
import logging
import os
import sys

from vf.core import REPO, MachineryError

logging.getLogger("pymoca").addHandler(logging.NullHandler())


# ---------------------------------------------------------------------------------------------
# rendering of ClassTreeFlatten library shapes
def _mod_txt(m):
    path = ".".join(m["path"])
    if m["attr"] == "redeclare":
        if len(m["path"]) != 1:
            raise MachineryError("redeclare below the first level is not rendered: %r" % (m,))
        return "redeclare model %s = %s" % (path, m["val"])
    if m["attr"] == "value":
        return "%s = %s" % (path, m["val"])
    return "%s(%s = %s)" % (path, m["attr"], m["val"])


def _comp_txt(c, alias_names):
    pre = (c["pre"] + " ") if c["pre"] else ""
    elementary = c["type"] == "Real" or c["type"] in alias_names
    if elementary:
        attrs = [m for m in c["mods"] if m["attr"] != "value"]
        vals = [m for m in c["mods"] if m["attr"] == "value"]
        if any(m["path"] for m in c["mods"]):
            raise MachineryError("elementary component with a path modification: %r" % (c,))
        s = "%s%s %s" % (pre, c["type"], c["name"])
        if attrs:
            s += "(" + ", ".join("%s = %s" % (m["attr"], m["val"]) for m in attrs) + ")"
        if vals:
            s += " = %s" % vals[-1]["val"]
        return s + ";"
    s = "%s%s %s" % (pre, c["type"], c["name"])
    if c["mods"]:
        s += "(" + ", ".join(_mod_txt(m) for m in c["mods"]) + ")"
    return s + ";"


def _class_lines(c, indent):
    alias_names = {a["name"] for a in c["alias"]}
    short = c["name"][len(c["pkg"]) + 1:] if c.get("pkg") else c["name"]
    out = ["%s %s" % (c["kind"], short)]
    for a in c["alias"]:
        out.append("  type %s = Real(%s = %s);" % (a["name"], a["attr"], a["val"]))
    for r in c.get("repl", []):
        out.append("  replaceable model %s = %s;" % (r["name"], r["def"]))
    for e in c["ext"]:
        s = "  extends %s" % (e.get("txt") or e["base"])
        if e["mods"]:
            s += "(" + ", ".join(_mod_txt(m) for m in e["mods"]) + ")"
        out.append(s + ";")
    for comp in c["comps"]:
        out.append("  " + _comp_txt(dict(comp, type=comp.get("txt") or comp["type"]), alias_names))
    eqs = list(c["eqs"]) + ["%s = %s.%s" % (r["var"], r["cls"], r["sym"]) for r in c.get("crefs", [])]
    if eqs:
        out.append("equation")
        for q in eqs:
            out.append("  %s;" % q)
    if c.get("algs"):
        out.append("algorithm")
        for q in c["algs"]:
            out.append("  %s;" % q)
    out.append("end %s;" % short)
    return [indent + l for l in out]


def render_flatten_lib(lib):
    """lib: the JSON object of a  LIB  line of ClassTreeFlatten.tla  ->  Modelica text"""
    out = []
    pkgs = {p["name"]: p for p in lib.get("pkgs", [])}
    done = set()
    for c in lib["classes"]:
        pk = c.get("pkg") or ""
        if not pk:
            out += _class_lines(c, "") + [""]
        elif pk not in done:
            done.add(pk)
            out.append("package %s" % pk)
            for imp in pkgs[pk]["imports"]:
                out.append("  import %s;" % imp)
            for d in lib["classes"]:
                if (d.get("pkg") or "") == pk:
                    out += _class_lines(d, "  ")
            out += ["end %s;" % pk, ""]
    return "\n".join(out)


# ---------------------------------------------------------------------------------------------
# observers
def digest(s):
    return hashlib.sha1(s.encode("utf-8", "replace")).hexdigest()[:16]


def fresh_tree(text):
    from pymoca import parser
    t = parser.parse(text, bypass_cache=True)
    if t is None:
        raise MachineryError("harness text does not parse:\n" + text[:400])
    return t


def tree_json(node):
    from pymoca import ast
    return json.dumps(ast.Node.to_json(node), sort_keys=True, default=str)


def _casadi_sig(m):
    def var(v):
        return [v.symbol.name(), str(v.start), str(v.min), str(v.max), str(v.nominal), str(v.value),
                str(v.fixed), str(v.python_type.__name__), list(v.symbol.shape)]
    d = {}
    for k in ("states", "der_states", "alg_states", "inputs", "constants", "parameters",
              "string_constants", "string_parameters"):
        d[k] = [var(v) for v in getattr(m, k)]
    d["outputs"] = [str(o) for o in m.outputs]
    d["equations"] = [str(e) for e in m.equations]
    d["initial_equations"] = [str(e) for e in m.initial_equations]
    d["delay_states"] = [str(e) for e in getattr(m, "delay_states", [])]
    return json.dumps(d, sort_keys=True)


def _scribble(flat_root):
    """the caller owns the returned flat tree: overwrite it (after it has been serialised) so that any aliasing
    between a returned result and the parsed tree / a later result shows up in later requests"""
    for c in flat_root.classes.values():
        for s in list(c.symbols.values()):
            s.name = "__scribbled__"
            s.prefixes = ["__scribbled__"]
        c.symbols.clear()
        del c.equations[:]
        del c.initial_equations[:]


def request(tree, cls, be, scribble=False):
    """Run one flatten / generate request on `tree`.  Returns a comparable outcome:
       ["ok", digest, text] or ["exc", exception type, message]."""
    from pymoca import ast
    try:
        if be == "flatten":
            from pymoca import tree as ptree
            r = ptree.flatten(tree, ast.ComponentRef.from_string(cls))
            s = tree_json(r)
            if scribble:
                _scribble(r)
        elif be == "casadi":
            from pymoca.backends.casadi import generator as cg
            s = _casadi_sig(cg.generate(tree, cls))
        elif be == "sympy":
            from pymoca.backends.sympy import generator as sg
            s = sg.generate(tree, cls)
        elif be == "xml":
            from pymoca.backends.xml import generator as xg
            s = xg.generate(tree, cls)
        else:
            raise MachineryError("unknown backend %r" % be)
    except MachineryError:
        raise
    except RecursionError as e:
        return ["exc", "RecursionError", str(e)[:200]]
    except Exception as e:  # the code under test raised: an observation, not a harness failure
        return ["exc", type(e).__name__, str(e)[:300].replace("\n", " ")]
    return ["ok", digest(s), s]


def same_outcome(a, b):
    """equal results, or both raise the same exception type (messages are not compared)"""
    return a[0] == b[0] and a[1] == b[1]


def short(o):
    return "%s:%s" % (o[0], o[1])


def flat_leaves(flat_root, attrs=("start", "nominal", "value", "min", "max")):
    """flat symbols of the last class of a flatten() result with their explicitly set numeric attributes"""
    from pymoca import ast
    c = list(flat_root.classes.values())[-1]
    out = {}
    for name, s in c.symbols.items():
        d = {}
        for a in attrs:
            v = getattr(s, a)
            if isinstance(v, ast.Primary) and v.value is not None and not isinstance(v.value, bool):
                d[a] = v.value
        out[name] = d
    return out, c


def all_class_paths(tree, prefix=()):
    out = []
    for n, c in tree.classes.items():
        out.append(".".join(prefix + (n,)))
        out += all_class_paths(c, prefix + (n,))
    return out


# ---------------------------------------------------------------------------------------------
# the compiler CLI, loaded from REPO/tools under a private module name
_cli = None


def cli_module():
    global _cli
    if _cli is None:
        path = os.path.join(REPO, "tools", "compiler.py")
        spec = importlib.util.spec_from_file_location("_vf_pymoca_compiler", path)
        mod = importlib.util.module_from_spec(spec)
        spec.loader.exec_module(mod)
        _cli = mod
    return _cli


class _Capture(logging.Handler):
    def __init__(self):
        super().__init__(level=logging.DEBUG)
        self.lines = []

    def emit(self, record):
        try:
            self.lines.append((record.levelname, record.getMessage()))
        except Exception:  # pragma: no cover
            self.lines.append((record.levelname, str(record.msg)))


def run_cli(argv):
    """tools/compiler.py main(argv) in-process.  Returns {"status": int | "raised:<Type>", "log": [(level, msg)]}"""
    mod = cli_module()
    log = logging.getLogger("pymoca")
    cap = _Capture()
    log.addHandler(cap)
    old_level, old_prop = log.level, log.propagate
    log.propagate = False
    old_err, old_out = sys.stderr, sys.stdout
    sys.stderr, sys.stdout = io.StringIO(), io.StringIO()
    try:
        try:
            st = mod.main(list(argv))
        except SystemExit as e:
            st = "exit:%s" % (e.code,)
        except Exception as e:
            st = "raised:%s" % type(e).__name__
    finally:
        sys.stderr, sys.stdout = old_err, old_out
        log.removeHandler(cap)
        log.setLevel(old_level)
        log.propagate = old_prop
    return {"status": st, "log": cap.lines}


def private_cache_env(scratch):
    """every process gets its own parse-cache folder inside the scratch dir (never ~/.cache, never shared)"""
    d = os.path.join(scratch, "xdg_%d" % os.getpid())
    os.makedirs(d, exist_ok=True)
    os.environ["XDG_CACHE_HOME"] = d
    return d
