"""Oracle-mode driver shared by C11, C12, C23 (and C13/C18 for the TLC part).

  tlc_items(ctx, family, tier)       run TLC on spec/EvalGen.tla for one program family, return the PROG objects
  judge(item, options, simplify)     replay ONE program through the real generator and compare with the
                                     expected observable printed by TLC -> list of violation records
  judge_batch(items)                 same for programs that share their declarations, merged into one model
                                     (falls back to one-by-one when anything is off)
"""
import json

from vf import tlc, ir_eval
from vf.core import MachineryError, exc_record


JAVA_OPTS = "-XX:ParallelGCThreads=2"


def _one_shard(args):
    module, cfg, shard, nshards, timeout, extra_env = args
    env = {"VF_SHARD": shard, "VF_NSHARDS": nshards, "JAVA_TOOL_OPTIONS": JAVA_OPTS}
    env.update(extra_env or {})
    return tlc.run(module, cfg, workers=1, deadlock=False, timeout=timeout, env=env)


def tlc_items(ctx, module, family, tier, cfg=None, shards=1, timeout=1500, env=None, tag="PROG"):
    """enumerate one program family with TLC (intended switches: TLC must report no violation).
    shards > 1 splits the family over that many TLC processes (the spec reads VF_SHARD / VF_NSHARDS)."""
    from concurrent.futures import ThreadPoolExecutor
    cfg = cfg or "%s_%s_%s.cfg" % (module, family, tier)
    jobs = [(module, cfg, i, shards, timeout, env) for i in range(shards)]
    with ThreadPoolExecutor(max_workers=shards) as ex:
        results = list(ex.map(_one_shard, jobs))
    items = []
    for i, res in enumerate(results):
        ctx.add_tlc(res, "oracle enumeration of family %s (%s), shard %d/%d: invariants WellTyped, RejectsIffIndexBad, GenValueAgrees" % (family, tier, i + 1, shards))
        if res.violated:
            raise MachineryError("spec %s violates %s for family %s: fix the spec\n%s" % (module, res.violated, family, res.cex[:3000]))
        items += res.tr(tag)
    if not items:
        raise MachineryError("TLC printed no program for family %s" % family)
    for it in items:
        it["tags"] = sorted(it["tags"])
    items.sort(key=lambda it: json.dumps(it["prog"], sort_keys=True))
    return items, results


def same_constants(cfg_a, cfg_b):
    """True when two cfg files of spec/ assign the same CONSTANTS (comments ignored): then the as-built
    configuration has no deviation left and enumerating it again adds nothing"""
    import os
    import re

    def consts(name):
        txt = open(os.path.join(tlc.SPEC, name)).read()
        txt = re.sub(r"\\\*.*", "", txt)
        return sorted(re.findall(r"(\w+)\s*=\s*(\"[^\"]*\"|\w+)", txt))
    return consts(cfg_a) == consts(cfg_b)


def fval(v):
    return float(ir_eval.frac(v))


def shape_tags(item, extra=()):
    return sorted(set(item["tags"]) | set(extra))


def _rec(obs, item, detail, exc=None, sig=None):
    r = {"observable": obs, "tags": item["tags"], "exception_type": None, "detail": detail}
    if exc is not None:
        r.update(exc_record(exc))
        r["detail"] = detail + " | " + r["detail"]
    if sig:
        r["sigdetail"] = sig
    return r


def observe(prog, pts, options=None, simplify=False):
    """run the real stage; returns ("exc", exception) or ("ok", model, [(dae, init) per point])"""
    try:
        model = ir_eval.generate(prog, options, simplify)
    except MachineryError:
        raise
    except Exception as e:  # the code under test rejected the program
        return ("exc", e)
    try:
        vals = [ir_eval.residuals(model, p["env"]) for p in pts]
    except ir_eval.UnknownVariable as e:
        return ("unknown", e, model)
    except MachineryError:
        raise
    except Exception as e:  # building / evaluating the residual function failed
        return ("evalexc", e, model)
    return ("ok", model, vals)


def compare_blocks(expected_blocks_per_pt, actual_per_pt):
    """expected: per point a list of blocks (lists of floats, Modelica order); actual: per point a flat list.
    Rows of ONE top-level equation may come in any order (the property does not fix it), but the order must
    be the same at every point.  Returns (verdict, detail): "ok" | "order" (drift) | "size" | "value"."""
    npts = len(expected_blocks_per_pt)
    if npts == 0:
        return "ok", ""
    sizes = [len(b) for b in expected_blocks_per_pt[0]]
    total = sum(sizes)
    for t in range(npts):
        if len(actual_per_pt[t]) != total:
            return "size", "residual has %d rows, the flat equations have %d (blocks %s)" % (len(actual_per_pt[t]), total, sizes)
    verdict = "ok"
    off = 0
    for bi, n in enumerate(sizes):
        exp_rows = [tuple(expected_blocks_per_pt[t][bi][i] for t in range(npts)) for i in range(n)]
        act_rows = [tuple(actual_per_pt[t][off + i] for t in range(npts)) for i in range(n)]
        off += n
        if all(all(ir_eval.close(a, e) for a, e in zip(ar, er)) for ar, er in zip(act_rows, exp_rows)):
            continue
        # order-insensitive: greedy matching of rows (vectors over all points)
        left = list(act_rows)
        ok = True
        for er in exp_rows:
            for k, ar in enumerate(left):
                if all(ir_eval.close(a, e) for a, e in zip(ar, er)):
                    del left[k]
                    break
            else:
                ok = False
                break
        if ok:
            verdict = "order"
        else:
            return "value", "equation %d: rows (per point) expected %s got %s" % (bi + 1, exp_rows[:6], act_rows[:6])
    return verdict, ""


def judge(item, options=None, simplify=False, which=("dae", "init")):
    """-> (records, info)   info: {"drift": [...], "dropped_pts": n, "status": ...}"""
    prog, exp = item["prog"], item["expect"]
    info = {"drift": [], "status": "ok"}
    if exp["kind"] == "any":        # the properties do not decide this program (empty slice outside the bounds)
        info["status"] = "any"
        return [], info
    if exp["kind"] == "reject":
        # the property requires generation to fail; if it does not, show what was selected instead
        pts = []
        try:
            model = ir_eval.generate(prog, options, simplify)
        except MachineryError:
            raise
        except Exception as e:
            info["status"] = "rejected:" + type(e).__name__
            return [], info
        sel = "n/a"
        try:
            f = model.dae_residual_function
            sel = "residual has %d row(s): %s" % (sum(f.size1_out(i) * f.size2_out(i) for i in range(f.n_out())),
                                                 [str(e) for e in model.equations][:3])
        except Exception as e:  # noqa
            sel = "residual function cannot be built: %s" % type(e).__name__
        info["status"] = "accepted"
        return [_rec("out-of-range-subscript-accepted", item,
                     "generation succeeded although a subscript is outside the declared dimension; " + sel)], info
    pts = exp["pts"]
    if not pts:
        info["status"] = "no-defined-point"
        return [], info
    o = observe(prog, pts, options, simplify)
    if o[0] == "exc":
        info["status"] = "exc"
        return [_rec("generate-raises", item, "generate() raised on a program of the supported subset", o[1])], info
    if o[0] == "unknown":
        info["status"] = "unknown-variable"
        return [_rec("residual-inputs", item, str(o[1]))], info
    if o[0] == "evalexc":
        info["status"] = "evalexc"
        return [_rec("residual-function-raises", item, "residual function could not be built / evaluated", o[1])], info
    vals = o[2]
    recs = []
    if exp["kind"] == "elem":
        for p, (dae, _ini) in zip(pts, vals):
            row = p["row"]
            if row["arg"][1] == 0 or row["lhs"][1] == 0:
                continue
            try:
                want = fval(row["lhs"]) - ir_eval.ELEM[row["f"]](fval(row["arg"]))
            except ValueError:      # outside the function's domain
                continue
            if len(dae) != 1 or not ir_eval.close(dae[0], want, 1e-9):
                recs.append(_rec("residual-value", item, "%s(%s): residual %s expected %r" % (row["f"], fval(row["arg"]), dae, want)))
                break
        return recs, info
    for name, idx in (("dae", 0), ("init", 1)):
        if name not in which:
            continue
        expb = [[[fval(x) for x in blk] for blk in p[name]] for p in pts]
        act = [v[idx] for v in vals]
        verdict, detail = compare_blocks(expb, act)
        if verdict == "order":
            info["drift"].append("row-order-within-equation")
        elif verdict == "size":
            recs.append(_rec("residual-size", item, "%s residual: %s" % (name, detail)))
        elif verdict == "value":
            recs.append(_rec("residual-value", item, "%s residual: %s" % (name, detail)))
    return recs, info


def conformance(item):
    """as-built binding: item comes from an *_asbuilt_* run, item["model"] is what the operational model of the
    generator predicts (raises / residual rows in veccat order).  Returns (kind, detail):
      "agree" | "rows-differ" | "raise-differs" | "skipped"     (only ever reported as model drift)"""
    m = item["model"]
    exp = item["expect"]
    if exp["kind"] not in ("rows", "reject") or not all(m["ok"]):
        return "skipped", ""
    pts = exp["pts"] if exp["kind"] == "rows" else []
    o = observe(item["prog"], pts)
    code_raises = o[0] in ("exc",)
    if m["raises"] != code_raises:
        return "raise-differs", "model raises=%s code: %s %s" % (m["raises"], o[0], o[1] if o[0] == "exc" else "")
    if code_raises or o[0] != "ok":
        return "agree", ""
    for p, mrows, (dae, ini) in zip(pts, m["rows"], o[2]):
        want = [fval(x) for blk in mrows for x in blk]
        got = list(dae) + list(ini)
        if len(want) != len(got) or not all(ir_eval.close(a, e) for a, e in zip(got, want)):
            return "rows-differ", "point %s: model %s code %s" % (p["t"], want[:8], got[:8])
    return "agree", ""


def merge_key(item):
    p = item["prog"]
    return json.dumps([p["comps"], p["funcs"]], sort_keys=True)


def judge_batch(batch):
    """batch: items with identical declarations and expect.kind == 'rows', all defined at the same points.
    Returns list of (records, info), one per item."""
    if len(batch) == 1:
        return [judge(batch[0])]
    p0 = batch[0]["prog"]
    merged = dict(p0, eqs=[e for it in batch for e in it["prog"]["eqs"]], ieqs=[e for it in batch for e in it["prog"]["ieqs"]])
    ts = [p["t"] for p in batch[0]["expect"]["pts"]]
    pts = batch[0]["expect"]["pts"]
    o = observe(merged, pts)
    if o[0] != "ok":
        return [judge(it) for it in batch]
    vals = o[2]
    out = []
    offs = [0, 0]
    bad = False
    for it in batch:
        res_it = []
        info = {"drift": [], "status": "ok"}
        for name, idx in (("dae", 0), ("init", 1)):
            expb = [[[fval(x) for x in blk] for blk in p[name]] for p in it["expect"]["pts"]]
            n = sum(len(b) for b in expb[0])
            act = [v[idx][offs[idx]:offs[idx] + n] for v in vals]
            offs[idx] += n
            verdict, detail = compare_blocks(expb, act)
            if verdict == "order":
                info["drift"].append("row-order-within-equation")
            elif verdict != "ok":
                bad = True
        out.append((res_it, info))
    if bad or offs[0] != len(vals[0][0]) or offs[1] != len(vals[0][1]):
        return [judge(it) for it in batch]     # isolate: verdicts always come from single-program runs
    return out


def make_batches(items, size):
    """group 'rows' items with the same declarations and the same defined points"""
    groups = {}
    singles = []
    for it in items:
        e = it["expect"]
        if e["kind"] != "rows" or not e["pts"]:
            singles.append([it])
            continue
        key = (merge_key(it), tuple(p["t"] for p in e["pts"]))
        groups.setdefault(key, []).append(it)
    batches = []
    for g in groups.values():
        for i in range(0, len(g), size):
            batches.append(g[i:i + size])
    return batches + singles
