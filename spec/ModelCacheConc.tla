---------------------------- MODULE ModelCacheConc ----------------------------
(* Property C21: an interrupted or in-progress write of the CasADi model cache
   never breaks later loads (src/pymoca/backends/casadi/api.py: save_model
   217-291, load_model 322-360, transfer_model 513-520).

   Every process runs transfer_model over and over on the same model folder.
   A call is a READER (load_model) that on a miss turns into a WRITER
   (_compile_model is local; then the shared libraries in codegen mode, then
   the cache file).  A process may CRASH at any point and leave whatever it
   had written so far.  The steps are the points where the code touches the
   shared file system; a process' pc names the operation it is ABOUT to do:

     r_stat              os.path.getmtime(cache file)  (absent -> miss)
     r_open              open(cache file, "rb")
     r_read              read the next chunk of the file (N chunks make a complete pickle)
     r_libs              ca.external(...) of the next shared library (codegen)
     w_link_a, w_link_b  the linker unlinks/creates the library, then completes it (codegen)
     w_open              open(cache file, "wb")   - truncates in place as built
     w_write             write the next chunk (own file offset; holes if someone truncated meanwhile)
     w_close             close                    - (intended: os.replace(tmp, cache file))
     w_cleanup           (intended, codegen) remove library bundles of earlier saves

   File content.  A complete cache file is N equal cells; a cell carries the
   CONTENT it belongs to: [o |-> option set it was compiled for, b |-> the
   library bundle its paths point to].  Two processes with the same options
   write identical cells, so a mixture of their chunks still unpickles; cells of
   different content (or holes, or fewer than N cells) do not.

   As-built switches (all TRUE = intended, all FALSE = the pinned code)
     AtomicWrite          cache file written to a temp name and renamed into place
     CatchUnpickle        EOFError / UnpicklingError / ... of pickle.load turned into a cache miss
     UniqueLibs           every save writes its libraries under fresh names (and renames them into place)
     CatchLibError        failure of ca.external turned into a cache miss                       *)
EXTENDS Integers, Sequences, FiniteSets, TLC, Json

CONSTANTS Procs,          \* e.g. {"p1","p2"}
          DiffOpts,       \* TRUE: p2 calls with option set "o2", everybody else with "o1"
          Codegen,        \* TRUE: codegen mode (shared libraries), FALSE: cache mode (pickled functions)
          N,              \* chunks of the cache file
          NL,             \* number of shared libraries
          MaxCrashes,
          Inits,          \* allowed initial disk states, subset of {"none","o1"}
          AtomicWrite, CatchUnpickle, UniqueLibs, CatchLibError

VARIABLES exists,   \* cache file exists
          cells,    \* its content: sequence of cells (content records or "hole")
          libs,     \* bundle -> library index -> [st |-> "absent"|"partial"|"ok", o |-> option set]
          pc, rd, fdc, snap, lo, wk, tmp, gen,
          crashes, last
vars == <<exists, cells, libs, pc, rd, fdc, snap, lo, wk, tmp, gen, crashes, last>>

OptOf(p) == IF DiffOpts /\ p = "p2" THEN "o2" ELSE "o1"
LibIds == 1..NL
Bundles == IF UniqueLibs THEN {<<p, g>> : p \in Procs, g \in 0..1} \cup {<<"init", 0>>} ELSE {<<"shared", 0>>}
MyBundle(p) == IF UniqueLibs THEN <<p, gen[p]>> ELSE <<"shared", 0>>
Content(p) == [o |-> OptOf(p), b |-> IF Codegen THEN MyBundle(p) ELSE <<"-", 0>>]
Absent == [st |-> "absent", o |-> "-"]
NoLibs == [b \in Bundles |-> [i \in LibIds |-> Absent]]
Hole == [o |-> "hole", b |-> <<"-", 0>>]

Complete(cs) == Len(cs) = N /\ \A i \in 1..N : cs[i] = cs[1] /\ cs[i].o # "hole"

InitDisk(k) ==
    IF k = "none" THEN exists = FALSE /\ cells = <<>> /\ libs = NoLibs
    ELSE LET b0 == IF UniqueLibs THEN <<"init", 0>> ELSE <<"shared", 0>>
             c0 == [o |-> "o1", b |-> IF Codegen THEN b0 ELSE <<"-", 0>>]
         IN  /\ exists = TRUE /\ cells = [i \in 1..N |-> c0]
             /\ libs = IF Codegen THEN [NoLibs EXCEPT ![b0] = [i \in LibIds |-> [st |-> "ok", o |-> "o1"]]] ELSE NoLibs

Init == /\ \E k \in Inits : InitDisk(k)
        /\ pc = [p \in Procs |-> "idle"]
        /\ rd = [p \in Procs |-> <<>>]
        /\ fdc = [p \in Procs |-> <<>>]
        /\ snap = [p \in Procs |-> Hole]
        /\ lo = [p \in Procs |-> <<>>]
        /\ wk = [p \in Procs |-> 0]
        /\ tmp = [p \in Procs |-> <<>>]
        /\ gen = [p \in Procs |-> 0]
        /\ crashes = 0
        /\ last = [ev |-> "init"]

-----------------------------------------------------------------------------
Goto(p, l) == pc' = [pc EXCEPT ![p] = l]
Ev(p, name, more) == last' = [ev |-> name, p |-> p] @@ more

(* the call ends: result handed to the caller *)
Finish(p, kind, vars_o, funs_o) ==
    /\ Goto(p, "idle")
    /\ last' = [ev |-> "finish", p |-> p, kind |-> kind, want |-> OptOf(p), vars |-> vars_o, funs |-> funs_o]

(* a miss: compile locally, then start writing *)
MissTarget == IF Codegen THEN "w_link_a" ELSE "w_open"
BecomeWriter(p, why) ==
    /\ Goto(p, MissTarget)
    /\ wk' = [wk EXCEPT ![p] = 1]
    /\ gen' = [gen EXCEPT ![p] = IF UniqueLibs /\ Codegen THEN 1 - gen[p] ELSE gen[p]]
    /\ Ev(p, "miss", [why |-> why])

Start(p) ==
    /\ pc[p] = "idle"
    /\ Goto(p, "r_stat")
    /\ Ev(p, "start", [opts |-> OptOf(p)])
    /\ UNCHANGED <<exists, cells, libs, rd, fdc, snap, lo, wk, tmp, gen, crashes>>

RStat(p) ==
    /\ pc[p] = "r_stat"
    /\ IF exists
       THEN Goto(p, "r_open") /\ Ev(p, "r_stat", [found |-> TRUE]) /\ UNCHANGED <<wk, gen>>
       ELSE BecomeWriter(p, "no-file")
    /\ UNCHANGED <<exists, cells, libs, rd, fdc, snap, lo, tmp, crashes>>

ROpen(p) ==
    /\ pc[p] = "r_open"
    /\ Goto(p, "r_read")
    /\ rd' = [rd EXCEPT ![p] = <<>>]
    /\ fdc' = [fdc EXCEPT ![p] = cells]        \* intended: the inode opened now never changes again
    /\ Ev(p, "r_open", [len |-> Len(cells)])
    /\ UNCHANGED <<exists, cells, libs, snap, lo, wk, tmp, gen, crashes>>

Visible(p) == IF AtomicWrite THEN fdc[p] ELSE cells

(* read chunk Len(rd)+1; after the last chunk pickle.load returns (or fails), then version/options are checked *)
RRead(p) ==
    /\ pc[p] = "r_read"
    /\ LET k    == Len(rd[p]) + 1
           src  == Visible(p)
           eof  == k > Len(src)
           got  == IF eof THEN rd[p] ELSE Append(rd[p], src[k])
           done == eof \/ Len(got) = N
           ok   == ~eof /\ Complete(got)
       IN  IF ~done
           THEN /\ rd' = [rd EXCEPT ![p] = got]
                /\ Ev(p, "r_read", [k |-> k])
                /\ UNCHANGED <<pc, snap, lo, wk, gen>>
           ELSE /\ rd' = [rd EXCEPT ![p] = <<>>]
                /\ IF ok
                   THEN IF got[1].o # OptOf(p)
                        THEN BecomeWriter(p, "options-differ") /\ UNCHANGED <<snap, lo>>
                        ELSE IF Codegen
                             THEN /\ Goto(p, "r_libs") /\ snap' = [snap EXCEPT ![p] = got[1]]
                                  /\ lo' = [lo EXCEPT ![p] = <<>>]
                                  /\ Ev(p, "r_read", [k |-> k]) /\ UNCHANGED <<wk, gen>>
                             ELSE Finish(p, "hit", got[1].o, <<got[1].o>>) /\ UNCHANGED <<snap, lo, wk, gen>>
                   ELSE IF CatchUnpickle
                        THEN BecomeWriter(p, IF eof THEN "truncated" ELSE "garbled") /\ UNCHANGED <<snap, lo>>
                        ELSE Finish(p, "raised", IF eof THEN "truncated" ELSE "garbled", <<>>) /\ UNCHANGED <<snap, lo, wk, gen>>
    /\ UNCHANGED <<exists, cells, libs, fdc, tmp, crashes>>

(* ca.external of library Len(lo)+1 of the bundle the cache file points to *)
RLibs(p) ==
    /\ pc[p] = "r_libs"
    /\ LET i  == Len(lo[p]) + 1
           l  == libs[snap[p].b][i]
           ok == l.st = "ok"
       IN  IF ok
           THEN IF i = NL
                THEN Finish(p, "hit", snap[p].o, Append(lo[p], l.o)) /\ lo' = [lo EXCEPT ![p] = <<>>] /\ UNCHANGED <<wk, gen>>
                ELSE lo' = [lo EXCEPT ![p] = Append(lo[p], l.o)] /\ Ev(p, "r_libs", [i |-> i]) /\ UNCHANGED <<pc, wk, gen>>
           ELSE /\ lo' = [lo EXCEPT ![p] = <<>>]
                /\ IF CatchLibError
                   THEN BecomeWriter(p, "library-unloadable")
                   ELSE Finish(p, "raised", IF l.st = "absent" THEN "library-missing" ELSE "library-partial", <<>>) /\ UNCHANGED <<wk, gen>>
    /\ UNCHANGED <<exists, cells, libs, rd, fdc, snap, tmp, crashes>>

-----------------------------------------------------------------------------
(* writer *)
WLinkA(p) ==     \* as built: ld unlinks the old library and starts writing the new one under the same name
    /\ pc[p] = "w_link_a"
    /\ IF UniqueLibs
       THEN /\ libs' = [libs EXCEPT ![MyBundle(p)][wk[p]] = [st |-> "ok", o |-> OptOf(p)]]   \* linked elsewhere, renamed into a fresh name
            /\ IF wk[p] = NL THEN Goto(p, "w_open") /\ wk' = [wk EXCEPT ![p] = 1]
                             ELSE wk' = [wk EXCEPT ![p] = wk[p] + 1] /\ UNCHANGED pc
       ELSE /\ libs' = [libs EXCEPT ![MyBundle(p)][wk[p]] = [st |-> "partial", o |-> OptOf(p)]]
            /\ Goto(p, "w_link_b") /\ UNCHANGED wk
    /\ Ev(p, "w_link_a", [i |-> wk[p]])
    /\ UNCHANGED <<exists, cells, rd, fdc, snap, lo, tmp, gen, crashes>>

WLinkB(p) ==
    /\ pc[p] = "w_link_b"
    /\ libs' = [libs EXCEPT ![MyBundle(p)][wk[p]] = [st |-> "ok", o |-> OptOf(p)]]
    /\ IF wk[p] = NL THEN Goto(p, "w_open") /\ wk' = [wk EXCEPT ![p] = 1]
                     ELSE Goto(p, "w_link_a") /\ wk' = [wk EXCEPT ![p] = wk[p] + 1]
    /\ Ev(p, "w_link_b", [i |-> wk[p]])
    /\ UNCHANGED <<exists, cells, rd, fdc, snap, lo, tmp, gen, crashes>>

WOpen(p) ==
    /\ pc[p] = "w_open"
    /\ Goto(p, "w_write")
    /\ wk' = [wk EXCEPT ![p] = 1]
    /\ IF AtomicWrite
       THEN tmp' = [tmp EXCEPT ![p] = <<>>] /\ UNCHANGED <<exists, cells>>
       ELSE exists' = TRUE /\ cells' = <<>> /\ UNCHANGED tmp             \* open(..., "wb") truncates the live file
    /\ Ev(p, "w_open", <<>>)
    /\ UNCHANGED <<libs, rd, fdc, snap, lo, gen, crashes>>

Pad(cs, k) == [i \in 1..(IF Len(cs) >= k THEN Len(cs) ELSE k) |-> IF i <= Len(cs) THEN cs[i] ELSE Hole]

WWrite(p) ==
    /\ pc[p] = "w_write"
    /\ LET k == wk[p]
       IN  /\ IF AtomicWrite
              THEN tmp' = [tmp EXCEPT ![p] = Append(tmp[p], Content(p))] /\ UNCHANGED cells
              ELSE cells' = [Pad(cells, k) EXCEPT ![k] = Content(p)] /\ UNCHANGED tmp
           /\ IF k = N THEN Goto(p, "w_close") /\ UNCHANGED wk
                       ELSE wk' = [wk EXCEPT ![p] = k + 1] /\ UNCHANGED pc
           /\ Ev(p, "w_write", [k |-> k])
    /\ UNCHANGED <<exists, libs, rd, fdc, snap, lo, gen, crashes>>

WClose(p) ==
    /\ pc[p] = "w_close"
    /\ IF AtomicWrite
       THEN exists' = TRUE /\ cells' = tmp[p]                           \* os.replace(tmp, cache file)
       ELSE UNCHANGED <<exists, cells>>
    /\ IF AtomicWrite /\ UniqueLibs /\ Codegen
       THEN Goto(p, "w_cleanup") /\ Ev(p, "w_close", <<>>)
       ELSE Finish(p, "miss", OptOf(p), <<OptOf(p)>>)
    /\ UNCHANGED <<libs, rd, fdc, snap, lo, wk, tmp, gen, crashes>>

WCleanup(p) ==   \* remove the libraries of earlier saves
    /\ pc[p] = "w_cleanup"
    /\ libs' = [b \in Bundles |-> IF b = MyBundle(p) THEN libs[b] ELSE [i \in LibIds |-> Absent]]
    /\ Finish(p, "miss", OptOf(p), <<OptOf(p)>>)
    /\ UNCHANGED <<exists, cells, rd, fdc, snap, lo, wk, tmp, gen, crashes>>

(* the process dies wherever it is; whatever it wrote stays; a new process takes its place *)
Crash(p) ==
    /\ pc[p] # "idle"
    /\ crashes < MaxCrashes
    /\ crashes' = crashes + 1
    /\ Goto(p, "idle")
    /\ rd' = [rd EXCEPT ![p] = <<>>] /\ lo' = [lo EXCEPT ![p] = <<>>]
    /\ Ev(p, "crash", [at |-> pc[p], k |-> wk[p]])
    /\ UNCHANGED <<exists, cells, libs, fdc, snap, wk, tmp, gen>>

Step(p) == Start(p) \/ RStat(p) \/ ROpen(p) \/ RRead(p) \/ RLibs(p)
           \/ WLinkA(p) \/ WLinkB(p) \/ WOpen(p) \/ WWrite(p) \/ WClose(p) \/ WCleanup(p)
Next == \E p \in Procs : Step(p) \/ Crash(p)

Fair == \A p \in Procs : WF_vars(Step(p))
Spec == Init /\ [][Next]_vars /\ Fair

-----------------------------------------------------------------------------
(* C21 *)
NoRaise == last.ev = "finish" => last.kind # "raised"
ReturnsCorrect == (last.ev = "finish" /\ last.kind \in {"hit", "miss"}) =>
                     /\ last.vars = last.want
                     /\ \A i \in DOMAIN last.funs : last.funs[i] = last.want

(* a complete, loadable cache *)
Intact == /\ exists /\ Complete(cells)
          /\ Codegen => \A i \in LibIds : LET l == libs[cells[1].b][i] IN l.st = "ok" /\ l.o = cells[1].o
(* whatever was interrupted, some later call leaves a valid cache behind, again and again *)
Recovers == []<>Intact

TypeOK == /\ exists \in BOOLEAN
          /\ Len(cells) <= N
          /\ \A p \in Procs : pc[p] \in {"idle", "r_stat", "r_open", "r_read", "r_libs", "w_link_a", "w_link_b",
                                        "w_open", "w_write", "w_close", "w_cleanup"}
          /\ crashes \in 0..MaxCrashes

-----------------------------------------------------------------------------
Proj == [exists |-> exists, cells |-> cells, libs |-> libs, pc |-> pc, rd |-> rd, fdc |-> fdc, snap |-> snap,
         lo |-> lo, wk |-> wk, tmp |-> tmp, gen |-> gen, crashes |-> crashes]
View == Proj
Log == PrintT(<<"TR", ToJson([src |-> [exists |-> exists, cells |-> cells, pc |-> pc, wk |-> wk, crashes |-> crashes, rd |-> rd, tmp |-> tmp, fdc |-> fdc],
                              act |-> last',
                              dst |-> [exists |-> exists', cells |-> cells', pc |-> pc', wk |-> wk', crashes |-> crashes', rd |-> rd', tmp |-> tmp', fdc |-> fdc']])>>)
=============================================================================
