\* C20 intended (thorough): cache+codegen with library edits and an added file
CONSTANTS K = 2
          Editable = {"M","L1","A"}
          Addable = {"A"}
          OptNames = {"O1","O2"}
          Modes = {"cache","codegen"}
          Versions = {1}
          Holds = {TRUE,FALSE}
          MaxClock = 1000000
          LibFoldersInKey = TRUE
          Beyond = {}
          OptionValuesCompared = TRUE
          FreshLibHandles = TRUE
INIT Init
NEXT Next
VIEW View
INVARIANT TypeOK
INVARIANT ClockInv
INVARIANT ResultIsFresh
PROPERTY ResultIsFreshAct
INVARIANT HitImpliesFresh
PROPERTY EditInvalidates
PROPERTY TransferLeavesValidCache
PROPERTY HitIsReadOnly
CHECK_DEADLOCK FALSE
