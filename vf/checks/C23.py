"""C23 - Out-of-range array subscripts are rejected, never reinterpreted.

Spec: spec/Eval.tla (IndexOK = the error value IdxErr of Select / ResolveSub), spec/EvalGen.tla (model of
get_indexed_symbol / ForLoop.register_indexed_symbol: 0-based conversion, integer range check, Python slices handed
to CasADi, wrap-around of negative 0-based loop indices; invariant RejectsIffIndexBad), family "index" of
spec/EvalFam.tla: every integer subscript and slice bound in the window -1..n+2 on vectors (n = 1..3) and matrices,
subscripts on scalars, too many subscripts, and loop-dependent subscripts i+k over ranges that leave 1..n.
Binding C: generate() must raise iff the spec rejects; for accepted programs the residual at points with pairwise
distinct element values must select exactly the spec's elements.
"""
from vf import evalrun, ir_eval
from vf.core import MachineryError
from vf.par import pmap

META = {
    "ready": True,
    "category": "model_checking",
    "technique": "TLA+ reference semantics with IndexOK (Eval.tla) + operational model of the generator's subscript handling (EvalGen.tla) model-checked by TLC (RejectsIffIndexBad, GenValueAgrees) over the complete window family; every program replayed against generator.generate() (oracle mode); as-built switches give TLC counterexamples that are replayed on the code",
    "text": "For vectors of size 1..3 and matrices up to 3x3 TLC enumerates every integer subscript and every slice a:b with a, b in -1..n+2 (read and write positions, same slice on both sides so an empty selection would drop the equation), subscripts on scalars, surplus subscripts, and loop subscripts i+k whose range leaves 1..n; the spec decides reject / selected elements; generate() must raise exactly when the spec rejects and otherwise the residual must be built from exactly the spec's elements (values at 4 points with pairwise distinct element values).",
    "note": "Trusted: TLC, vf/ir_eval.py. Any exception of generate() counts as rejection (the property does not name the exception type). Slices a:b with a > b select nothing in Modelica whatever the bounds; whether such a program is rejected is not decided (counted as 'any'). Negative literals reach the generator as unary-minus expressions. Not covered: subscripts given by non-literal parameter expressions other than the pinned loop bound, 3-D arrays, arrays of components.",
    "design_ref": "DESIGN.md section 6, C23",
}


def _work(batch):
    return evalrun.judge_batch(batch)


def _conf(item):
    return evalrun.conformance(item)


def run(ctx):
    ir_eval.pymoca()
    xdg = ir_eval.scratch_env()
    cov = {"status": {}, "tags": {}, "expect": {}}
    try:
        from concurrent.futures import ThreadPoolExecutor
        with ThreadPoolExecutor(max_workers=2) as ex:
            f1 = ex.submit(evalrun.tlc_items, ctx, "EvalGen", "index", ctx.tier, None, 4)
            deviates = not evalrun.same_constants("EvalGen_asbuilt_index_%s.cfg" % ctx.tier, "EvalGen_index_%s.cfg" % ctx.tier)
            f2 = ex.submit(evalrun.tlc_items, ctx, "EvalGen", "index", ctx.tier, "EvalGen_asbuilt_index_%s.cfg" % ctx.tier, 2) if deviates else None
            items = f1.result()[0]
            asbuilt = f2.result()[0] if f2 else []
        batches = evalrun.make_batches(items, 20)
        evals = 0
        for batch, res in zip(batches, pmap(_work, batches)):
            for it, (recs, info) in zip(batch, res):
                ctx.programs += 1
                k = it["expect"]["kind"]
                cov["expect"][k] = cov["expect"].get(k, 0) + 1
                st = info["status"].split(":")[0] if k != "any" else "any"
                cov["status"][st] = cov["status"].get(st, 0) + 1
                if k == "rows":
                    evals += len(it["expect"]["pts"])
                for d in info["drift"]:
                    ctx.note_drift(d)
                for t in it["tags"]:
                    cov["tags"][t] = cov["tags"].get(t, 0) + 1
                for r in recs:
                    ctx.violation(r, {"item": it})
        for k in ("reject", "rows", "any"):
            if not cov["expect"].get(k):
                raise MachineryError("vacuous: no program with expectation %s" % k)
        for t in ("k:slice", "k:for", "vec", "mat", "k:colon"):
            if not cov["tags"].get(t):
                raise MachineryError("vacuous: no program with shape tag %s" % t)
        # binding self-test: an accepted program relabelled "must be rejected" has to be reported
        import copy
        probe = next((it for it in items if it["expect"]["kind"] == "rows" and it["expect"]["pts"] and not evalrun.judge(it)[0]), None)
        if probe is None and not ctx.violations:
            raise MachineryError("binding self-test impossible: no program of the family conforms")
        if probe is not None:      # (on a tree with violations everywhere there may be nothing clean to corrupt)
            bad = copy.deepcopy(probe)
            bad["expect"] = {"kind": "reject"}
            if not any(r["observable"] == "out-of-range-subscript-accepted" for r in evalrun.judge(bad)[0]):
                raise MachineryError("binding self-test failed")
            bad = copy.deepcopy(probe)
            for pt in bad["expect"]["pts"]:
                blk = next(b for b in pt["dae"] if b)
                blk[0] = [blk[0][0] + blk[0][1], blk[0][1]]
            if not any(r["observable"] == "residual-value" for r in evalrun.judge(bad)[0]):
                raise MachineryError("binding self-test failed: corrupted selected element accepted")
        # as-built switches (SlicesRangeChecked, LoopIndexRangeChecked = FALSE): counterexample programs + model conformance
        wit = [it for it in asbuilt if not it["model"]["agrees"]]
        if not wit:
            # every deviation this property knew about has been fixed in /repo: the as-built switches equal the
            # intended ones, the former counterexample programs stay in the family as ordinary regression programs
            ctx.extra["asbuilt_note"] = "no as-built deviation left: as-built cfg = intended cfg"
        conf = {"agree": 0, "rows-differ": 0, "raise-differs": 0, "skipped": 0}
        for it, (kind, detail) in zip(asbuilt, pmap(_conf, asbuilt)):
            conf[kind] += 1
            if kind in ("rows-differ", "raise-differs"):
                ctx.note_drift("asbuilt-model-" + kind)
                ex_ = ctx.extra.setdefault("asbuilt_model_drift_examples", [])
                if len(ex_) < 5:
                    ex_.append({"modelica": ir_eval.render(it["prog"]), "detail": detail})
        ctx.traces += len(wit)
        ctx.extra["asbuilt"] = {"counterexample_programs": len(wit), "model_vs_code": conf}
        for it in (items[0], items[len(items) // 3], items[2 * len(items) // 3]):
            ctx.sample({"modelica": ir_eval.render(it["prog"]), "expected": it["expect"]["kind"],
                        "rows_at_first_point": it["expect"]["pts"][0]["dae"] if it["expect"]["kind"] == "rows" and it["expect"]["pts"] else None})
    finally:
        import shutil
        shutil.rmtree(xdg, ignore_errors=True)
    ctx.extra["per_tag_programs"] = cov["tags"]
    ctx.extra["per_expectation"] = cov["expect"]
    ctx.extra["status"] = cov["status"]
    ctx.assumptions += ["any exception raised by generate() is a rejection",
                        "slices a:b with a > b (empty range) are accepted either way"]
    return {"evaluations": evals, "exhaustive": True}


def replay(ctx, sc):
    ir_eval.pymoca()
    recs, _info = evalrun.judge(sc["item"])
    return recs
