\* intended spec: all properties for the (blueprint, option set) pairs that are replayed on the code (env PAIR_FILE)
CONSTANTS Family = "pairs" OptMode = "file" ConstValuesResolved = TRUE OldAliasSignStripped = TRUE
          PrintProg = FALSE PrintFin = FALSE PrintCex = FALSE
INIT Init
NEXT Next
VIEW View
INVARIANT TypeOK
INVARIANT SolutionPreserved
INVARIANT RecordedEliminationsHold
INVARIANT SelfContained
INVARIANT MetadataMerged
PROPERTY Balance
CHECK_DEADLOCK FALSE
