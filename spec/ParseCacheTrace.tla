-------------------------- MODULE ParseCacheTrace --------------------------
(* Code -> spec trace validation for C01 (binding B).

   TRACE_FILE: JSON array of histories; a history is an array of events recorded from the
   real parser.parse() and the fault injectors of the harness:
     {"ev":"parse","t":..,"exp":..,"upd":..,"byp":..,"result":["tree",t]|["none"]|["raise",type]|["wrongtree"],"state":S}
     {"ev":"reload"|"tick"|"corruptfile","state":S}   {"ev":"setversion","v":..,"state":S}
     {"ev":"corruptentry","t":..,"v":..,"kind":..,"state":S}   {"ev":"corruptlayout","tbl":..,"how":..,"state":S}
   S is the projection of the REAL cache folder / process after the step (same shape as Proj).

   Strict = TRUE : every event must be the corresponding ParseCache action AND lead to the logged state
                   (validates the model of the cache, not only the property).
   Strict = FALSE: the spec state is re-synchronised to the logged state after every event and only
                   the property's observable is required: the logged result equals Fresh(t).
   The harness runs Strict first; a history rejected by Strict but accepted by the loose mode is
   model drift, a history rejected by both violates the property.                                *)
EXTENDS ParseCache, IOUtils, TLCExt, SequencesExt

CONSTANT Strict
Batch == JsonDeserialize(IOEnv.TRACE_FILE)

VARIABLES tid, l
tvars == <<db, inited, ver, day, ops, last, tid, l>>

SeqToSet(s) == {s[i] : i \in DOMAIN s}
RowsOf(rs) == LET S == SeqToSet(rs)
              IN  [k \in {<<r.t, r.v>> : r \in S} |->
                     LET r == CHOOSE rr \in S : <<rr.t, rr.v>> = k IN [blob |-> r.blob, hit |-> r.hit]]
DbOf(s) == IF s.db.file = "db"
           THEN [file |-> "db", models |-> s.db.models, meta |-> s.db.meta, rows |-> RowsOf(s.db.rows),
                 lastPrune |-> s.db.lastPrune]
           ELSE IF s.db.file = "absent" THEN AbsentDb ELSE CorruptDb

TInit == Init /\ tid = 1 /\ l = 1

Ev == Batch[tid][l]
IsEv(e) == tid <= Len(Batch) /\ l <= Len(Batch[tid]) /\ Ev.ev = e /\ l' = l + 1 /\ tid' = tid /\ ops' = ops + 1
ResOf(r) == IF Len(r) = 2 THEN <<r[1], r[2]>> ELSE <<r[1]>>
Logged == /\ db' = DbOf(Ev.state) /\ inited' = Ev.state.inited /\ ver' = Ev.state.ver /\ day' = Ev.state.day

(* lastPrune is metadata only used for bookkeeping; compare everything else exactly *)
SameDb(a, b) == /\ a.file = b.file
                /\ a.file = "db" => (a.models = b.models /\ a.meta = b.meta /\ a.rows = b.rows)
Matches == /\ SameDb(db', DbOf(Ev.state)) /\ inited' = Ev.state.inited /\ ver' = Ev.state.ver /\ day' = Ev.state.day

Step(A) == IF Strict THEN A /\ Matches ELSE Logged /\ last' = [act |-> "resync"]

TParse == /\ IsEv("parse")
          /\ ResOf(Ev.result) = Fresh(Ev.t)                       \* the property's observable, in both modes
          /\ Step(Parse(Ev.t, Ev.exp, Ev.upd, Ev.byp) /\ UNCHANGED <<ver, day>>)
TReload == IsEv("reload") /\ Step(Reload)
TSetVersion == IsEv("setversion") /\ Step(SetVersion /\ ver' = Ev.v)
TTick == IsEv("tick") /\ Step(Tick)
TCorruptEntry == IsEv("corruptentry") /\ Step(CorruptEntry /\ last'.t = Ev.t /\ last'.v = Ev.v /\ last'.kind = Ev.kind)
TCorruptLayout == IsEv("corruptlayout") /\ Step(CorruptLayout /\ last'.tbl = Ev.tbl /\ last'.how = Ev.how)
TCorruptFile == IsEv("corruptfile") /\ Step(CorruptFile)
TNextTrace == /\ tid <= Len(Batch) /\ l = Len(Batch[tid]) + 1
              /\ tid' = tid + 1 /\ l' = 1
              /\ db' = AbsentDb /\ inited' = FALSE /\ ver' = (CHOOSE v \in Versions : TRUE) /\ day' = 0 /\ ops' = 0
              /\ last' = [act |-> "init"]

TNext == TParse \/ TReload \/ TSetVersion \/ TTick \/ TCorruptEntry \/ TCorruptLayout \/ TCorruptFile \/ TNextTrace

TView == <<db, inited, ver, day, tid, l>>
At == PrintT(<<"AT", ToJson([tid |-> tid', l |-> l'])>>)
Accepted == TLCGet("stats").diameter = 1 + Len(Batch) + FoldSeq(LAMBDA t, acc : acc + Len(t), 0, Batch)
=============================================================================
