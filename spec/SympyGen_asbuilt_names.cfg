\* as-built value of SafeNames only: TLC is expected to report a counterexample to Injective
CONSTANTS SympyParenthesises = TRUE
 SafeNames = FALSE
 ClassifiesDiscrete = TRUE
 PrintsValueExpressions = TRUE
          OneListPerVariable = TRUE
          Family = "cex"
INIT Init
NEXT Next
VIEW View
INVARIANT TypeOK
INVARIANT Injective
INVARIANT ClassificationMatches
INVARIANT ValidPython
INVARIANT Constructs
INVARIANT OneSymbolPerVariable
INVARIANT MeaningPreserved
CHECK_DEADLOCK FALSE
