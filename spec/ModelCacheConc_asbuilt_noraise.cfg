\* C21 as built, cache mode: EXPECTED to violate NoRaise (reader sees a truncated / in-progress file)
CONSTANTS Procs = {"p1","p2"}
          DiffOpts = FALSE
          Codegen = FALSE
          N = 3
          NL = 2
          MaxCrashes = 1
          Inits = {"none","o1"}
          Sequential = FALSE
          AtomicWrite = FALSE
          CatchUnpickle = FALSE
          UniqueLibs = FALSE
          CatchLibError = FALSE
INIT Init
NEXT Next
INVARIANT TypeOK
INVARIANT NoRaise
CHECK_DEADLOCK FALSE
