\* as-built value of LoopDelayOwnFreeVars only: TLC is expected to report a counterexample to RejectsExactly
CONSTANTS LoopDelayOwnFreeVars = FALSE
          LoopDurationMapped = TRUE
          ParamValuesReachDelays = TRUE
          ChecksBeforeSave = TRUE AliasesReachDurations = TRUE
          DelayInputsForbidden = TRUE ExpandKeepsElements = TRUE
          Family = "cex"
INIT Init
NEXT Next
VIEW View
INVARIANT TypeOK
INVARIANT NoPlaceholderLeft
INVARIANT RejectsExactly
INVARIANT ArgumentsPreserved
CHECK_DEADLOCK FALSE
