"""C21 - An interrupted or in-progress cache write never breaks later loads.

Spec: spec/ModelCacheConc.tla (reader / writer / crash steps of transfer_model on one cache file and its
shared libraries; switches AtomicWrite, CatchUnpickle, UniqueLibs, CatchLibError).
  * intended variant: TLC checks NoRaise, ReturnsCorrect and the liveness property Recovers ([]<>Intact
    under weak fairness) for two looping callers with different options, any initial disk state, crashes.
  * as-built variants are expected to violate NoRaise / ReturnsCorrect / Recovers.
Binding A (spec -> code):
  * every transition of the as-built graphs is replayed on the real transfer_model: each call is a thread,
    gated at the shimmed file operations (api.open / api.os / api.ca / the distutils link call) so that the
    schedule of the TLC path is reproduced exactly; a crash is a BaseException raised at the gate.
    Sequential graphs give every crash point followed by later calls (cache and codegen mode); concurrent
    graphs give every reader/writer and writer/writer interleaving of two calls (cache mode).
  * independent of the chunking: every byte offset of real cache files (and offsets of a real shared
    library, in a forked child) as the file a later transfer_model finds.
After every completed call: no exception, and the returned model equals a fresh compile.
"""
import gc
import json
import os
import shutil
import tempfile
import time
from concurrent.futures import ThreadPoolExecutor

from vf import tlc, graph, par
from vf import mc_common as mc
from vf import mc_gates as mg
from vf.core import MachineryError, exc_record

META = {
    "ready": True,
    "category": "model_checking",
    "technique": "TLA+ spec (ModelCacheConc.tla) of reader/writer/crash steps on the cache file and shared libraries, model-checked by TLC (safety + liveness); every transition of its graphs replayed on real transfer_model calls run as threads gated at shimmed file operations; byte-offset fault enumeration on real cache files and libraries",
    "text": "TLC checks NoRaise, ReturnsCorrect and Recovers ([]<>Intact under weak fairness) on the intended variant (2 looping callers with different options, 3 chunks, 2-4 libraries, up to 2 crashes, absent/valid/truncated initial file) and produces the expected counterexamples for the as-built variants; the complete transition graphs of the variant that describes the current code (all crash points sequentially in cache and codegen mode; all interleavings of two calls in cache mode; thorough: also the graphs of the pre-repair variant as regression schedules) are replayed on the real code with the exact schedule enforced by gates on api.open/api.os/api.ca and the link step, and every completed call is checked for 'no exception' and 'model equals a fresh compile'; additionally every prefix length of real cache files (64 in quick, all in thorough) and sampled prefix lengths of a real shared library are presented to transfer_model.",
    "note": "Trusted: TLC, the shims in vf/mc_gates.py (writer bytes go out in N gated pwrite calls at close; the linker's output is unlinked/created/completed in two steps as ld does), the projection/comparison code. Not covered: OS-level atomicity of write(2) beyond prefix visibility, other file systems, concurrent calls in codegen mode (sequential crash points only), edits of sources during a call.",
    "design_ref": "DESIGN.md section 3, C21",
}

OPT = {"o1": "O1", "o2": "O2"}
GRAPHS = {   # cfg -> (mode, N chunks, tier).  gi_* = the code as it is now (repaired); g_* = the schedules that broke the
             # code before the repairs (kept as regression schedules, thorough only: they drift by construction)
    "gi_seq_cache": ("cache", 3, "quick"),
    "gi_conc_same": ("cache", 3, "quick"),
    "gi_conc_diff_q": ("cache", 2, "quickonly"),
    "gi_conc_diff": ("cache", 3, "thorough"),
    "gi_seq_codegen": ("codegen", 2, "directed"),     # shortest paths to every finish class (+ every crash point in thorough)
    "g_seq_cache": ("cache", 3, "thorough"),
    "g_conc_same": ("cache", 3, "thorough"),
    "g_conc_diff_q": ("cache", 2, "thorough"),
    "g_seq_codegen": ("codegen", 2, "thorough-directed"),
}
INIT_FILES = {"M": 1, "L1": 1, "L2": 1}


def procs():
    return max(1, min(8, int(os.environ.get("VERIF_PROCS", "8"))))


# ---------------------------------------------------------------------------------------------
_fresh = {}


def fresh_projection(sb, oname, mode):
    key = (oname, mode)
    if key not in _fresh:
        try:
            _fresh[key] = mc.project(sb.fresh(oname, mode))
        except Exception as e:
            raise MachineryError("reference compile failed: %r" % (e,))
    return _fresh[key]


_calib = {}


def calibrate(mode, n):
    """chunk size: both option variants must need exactly n chunks"""
    key = (mode, n)
    if key in _calib:
        return _calib[key]
    sb = mc.Sandbox(INIT_FILES)
    try:
        lens = []
        for o in ("O1", "O2"):
            try:
                os.remove(sb.cache_file)
            except FileNotFoundError:
                pass
            m = sb.transfer(o, mode)
            del m
            gc.collect()
            lens.append(os.path.getsize(sb.cache_file))
    finally:
        sb.close()
    size = -(-max(lens) // n) + 64        # margin: the cache file contains absolute library paths of varying length
    if min(lens) <= (n - 1) * size:
        raise MachineryError("cache files of the two option sets differ too much in size: %s" % lens)
    _calib[key] = size
    return size


def _classify_init(state, n):
    if not state["exists"]:
        return "none"
    return "valid" if len(state["cells"]) == n else "trunc"


def evaluate(sb, agent, oname, mode, fin, recs, drift, step, sched):
    """one completed call: property-level verdict + drift against the spec's finish event"""
    kind_spec = fin.get("kind") if fin else None
    why = fin.get("vars") if fin and kind_spec == "raised" else None
    pred_wrong = bool(fin) and kind_spec in ("hit", "miss") and (
        fin["vars"] != fin["want"] or any(f != fin["want"] for f in fin["funs"]))
    tags = [mode, sched]
    if fin:
        tags.append("spec:" + ("wrong" if pred_wrong else kind_spec))
        if why:
            tags.append("why:" + why)
    else:
        tags.append("spec:none")
    out = agent.outcome
    if out[0] == "crashed":
        return
    if out[0] == "raised":
        r = exc_record(out[1])
        r.update(observable="exception", tags=sorted(tags), step=step)
        r["detail"] = "transfer_model(%s, %s) raised %s (gates passed: %s)" % (oname, mode, r["detail"][:300], agent.trace[-6:])
        recs.append(r)
        if kind_spec != "raised":
            drift["outcome-kind"] = drift.get("outcome-kind", 0) + 1
        return
    model = out[1]
    hit = type(model).__name__ == "CachedModel"
    try:
        got = mc.project(model)
    except Exception as e:
        r = exc_record(e)
        r.update(observable="unusable-model", tags=sorted(tags), step=step)
        recs.append(r)
        return
    bad, _dr = mc.compare(fresh_projection(sb, oname, mode), got)
    if bad:
        recs.append({"observable": "wrong-model", "tags": sorted(tags + ["hit" if hit else "miss"]), "exception_type": None, "step": step,
                     "detail": "transfer_model(%s, %s) returned a %s model that differs from a fresh compile in %s: %s" % (
                         oname, mode, "cached" if hit else "compiled", sorted({b[0] for b in bad}), "; ".join(b[1] for b in bad[:2]))[:700]})
    if fin:
        if kind_spec == "raised" or (kind_spec == "hit") != hit:
            drift["outcome-kind"] = drift.get("outcome-kind", 0) + 1
        if pred_wrong != bool(bad):
            drift["wrong-model-prediction"] = drift.get("wrong-model-prediction", 0) + 1


def run_path(sc):
    """Replay one path of a ModelCacheConc graph.  sc = {"mode","n","init","acts":[{"act":..., "pc_after":...}]}"""
    a = mc.api()
    mode, n = sc["mode"], sc["n"]
    if sc.get("tmpdir"):
        tempfile.tempdir = sc["tmpdir"]      # forked child: everything it creates lives under a dir the parent removes
    size = sc.get("chunk") or calibrate(mode, n)
    sb = mc.Sandbox(INIT_FILES)
    scratch = os.environ.get("VF_MC_SCRATCH")
    if scratch:
        d = os.path.join(scratch, "xdg_%d" % os.getpid())
        os.makedirs(d, exist_ok=True)
        os.environ["XDG_CACHE_HOME"] = d
    recs, drift = [], {}
    stats = {"steps": 0, "calls": 0, "crashes": 0}
    old_cwd = os.getcwd()
    os.chdir(sb.cwd)
    try:
        if sc["init"] in ("valid", "trunc"):
            a.transfer_model(sb.model_folder, "M", sb.options("O1", mode))
            gc.collect()
            if sc["init"] == "trunc":
                with open(sb.cache_file, "rb") as f:
                    data = f.read()
                with open(sb.cache_file, "wb") as f:
                    f.write(data[:size])
        ctl = mg.Controller()
        opts_of = {}
        with mg.Shims(a):
            try:
                for k, st in enumerate(sc["acts"]):
                    act = st["act"]
                    ev, p = act["ev"], act["p"]
                    if sc.get("progress"):
                        with open(sc["progress"], "w") as pf:
                            pf.write(str(k))
                    stats["steps"] += 1
                    stats[ev] = stats.get(ev, 0) + 1
                    if ev == "start":
                        oname = OPT[act["opts"]]
                        opts_of[p] = oname
                        o = sb.options(oname, mode)
                        ctl.start(p, (lambda o=o: a.transfer_model(sb.model_folder, "M", o)), n, size)
                        stats["calls"] += 1
                        ag = ctl.agents[p]
                    elif ev == "crash":
                        ag = ctl.advance(p, crash=True)
                        stats["crashes"] += 1
                    else:
                        ag = ctl.agents.get(p)
                        if ag is None:
                            raise MachineryError("step for %s before start" % p)
                        if ag.finished and not getattr(ag, "evaluated", False) and ev != "finish":
                            drift["early-finish"] = drift.get("early-finish", 0) + 1
                        elif not ag.finished:
                            ag = ctl.advance(p)
                    # align: the thread should now wait at the gate named by the spec's pc (or be done)
                    want_pc = st["pc_after"]
                    tries = 0
                    # gates the spec has no step for are passed at once: a further read of the same unpickling, the
                    # second half of a link step when libraries appear atomically, the writer's look at the old
                    # cache file (which libraries to clean up)
                    while (not ag.finished and ag.at and ag.at[0] != want_pc and tries < 12
                           and ag.at[0] in ("r_read", "w_link_b", "r_open", "x_unlink")
                           and (ag.at[0] != "r_open" or any(g[0] == "w_open" for g in ag.trace))):
                        kind_ = "extra-read" if ag.at[0] == "r_read" and not any(g[0] == "w_open" for g in ag.trace) else "aux-gate"
                        if kind_ == "extra-read":
                            drift["extra-read"] = drift.get("extra-read", 0) + 1
                        ag = ctl.advance(p)
                        tries += 1
                    if not ag.finished and ag.at and want_pc != "idle" and ag.at[0] != want_pc:
                        drift["gate-mismatch"] = drift.get("gate-mismatch", 0) + 1
                    if want_pc == "idle" and not ag.finished and ev != "crash":
                        # the spec says the call is over; let the thread finish what it is doing
                        drift["late-finish"] = drift.get("late-finish", 0) + 1
                        g = 0
                        while not ag.finished and g < 50:
                            ag = ctl.advance(p)
                            g += 1
                    if ag.finished and not getattr(ag, "evaluated", False) and (ev in ("finish", "crash") or want_pc == "idle"):
                        ag.evaluated = True
                        evaluate(sb, ag, opts_of[p], mode, act if ev == "finish" else None, recs, drift, k,
                                 "seq" if sc.get("sequential") else "conc")
                        ag.outcome = (ag.outcome[0], None)     # drop the model: a live codegen model keeps its libraries mapped
                        gc.collect()
                    for r in recs:
                        r.setdefault("step", k)
                    if recs and sc.get("stop_at_first"):
                        break
            finally:
                ctl.drain()
            for p, ag in ctl.agents.items():
                if not getattr(ag, "evaluated", False) and ag.outcome and ag.outcome[0] != "crashed":
                    ag.evaluated = True
                    evaluate(sb, ag, opts_of[p], mode, None, recs, drift, len(sc["acts"]), "tail")
    finally:
        os.chdir(old_cwd)
        gc.collect()
        sb.close()
    return {"records": recs, "drift": drift, "stats": stats,
            "gates": {p: [list(g) for g in ag.trace][-40:] for p, ag in ctl.agents.items()} if drift else {}}


def run_path_safe(sc):
    """codegen paths can kill the process (a half-written shared library is mapped and executed): run them in
    a forked child and turn a death by signal into an observation"""
    if sc["mode"] != "codegen":
        return run_path(sc)
    tmpd = tempfile.mkdtemp(prefix="vfc21c_")
    fd, prog = tempfile.mkstemp(prefix="vfc21p_")
    os.close(fd)
    try:
        kind, val = mc.isolated(run_path, dict(sc, progress=prog, tmpdir=tmpd))
        if kind == "ok":
            return val
        if kind != "signal":
            raise MachineryError("isolated path replay ended with %s %s" % (kind, val))
        with open(prog) as f:
            txt = f.read().strip()
        k = int(txt) if txt else 0
        act = sc["acts"][k]["act"]
        fin = None
        for st in sc["acts"][k:]:
            if st["act"]["p"] == act["p"] and st["act"]["ev"] == "finish":
                fin = st["act"]
                break
        tags = [sc["mode"], "seq" if sc.get("sequential") else "conc"]
        if fin:
            tags.append("spec:" + fin["kind"])
            if fin["kind"] == "raised":
                tags.append("why:" + fin["vars"])
        rec = {"observable": "process-killed", "tags": sorted(tags), "exception_type": mc.signame(val), "step": k,
               "detail": "the process running transfer_model died with %s at step %d (%s:%s)" % (mc.signame(val), k, act["p"], act["ev"])}
        return {"records": [rec], "drift": {}, "stats": {"steps": k, "killed": 1}}
    finally:
        shutil.rmtree(tmpd, ignore_errors=True)
        try:
            os.remove(prog)
        except FileNotFoundError:
            pass


# ---------------------------------------------------------------------------------------------
# byte-offset fault enumeration
# ---------------------------------------------------------------------------------------------
def _offset_trial(job):
    """job = {"mode", "oname", "what": "cache"|"lib", "offsets": [...]} -> list of (offset, records)
    cache: the cache file of (oname, mode) cut to n bytes is what the next transfer_model finds.
    lib:   a valid codegen cache for oname exists; a call with OTHER options recompiles and its first link step
           dies after n bytes of output; then transfer_model(oname) is called again."""
    mode, oname = job["mode"], job["oname"]
    sb = mc.Sandbox(INIT_FILES)
    scratch = os.environ.get("VF_MC_SCRATCH")
    if scratch:
        d = os.path.join(scratch, "xdg_%d" % os.getpid())
        os.makedirs(d, exist_ok=True)
        os.environ["XDG_CACHE_HOME"] = d
    out = []
    try:
        m = sb.transfer(oname, mode)
        del m
        gc.collect()
        with open(sb.cache_file, "rb") as f:
            good = f.read()
        ref = fresh_projection(sb, oname, mode)
        snap = {}
        for fn in os.listdir(sb.model_folder):
            fp = os.path.join(sb.model_folder, fn)
            if os.path.isfile(fp) and not fn.endswith(".mo"):
                with open(fp, "rb") as f:
                    snap[fn] = (f.read(), os.stat(fp).st_mode & 0o777)

        def restore():
            for fn in os.listdir(sb.model_folder):
                fp = os.path.join(sb.model_folder, fn)
                if os.path.isfile(fp) and not fn.endswith(".mo"):
                    os.remove(fp)
            for fn, (data_, mode_) in snap.items():
                fp = os.path.join(sb.model_folder, fn)
                with open(fp, "wb") as f:
                    f.write(data_)
                os.chmod(fp, mode_)
            sb.cache_stamp = None
            sb.stamp_cache()
        for n in job["offsets"]:
            recs = []
            restore()
            if job["what"] == "cache":
                tags = [mode, "byte-offset", "why:truncated"]
                if n < 0:
                    n = len(good) + n
                if n < 0 or n >= len(good):
                    continue
                with open(sb.cache_file, "wb") as f:
                    f.write(good[:n])
                sb.cache_stamp = None
                sb.stamp_cache()
                results = [("ok", _two_calls(sb, oname, mode, ref))]
                what = "cache file cut to %d of %d bytes" % (n, len(good))
            else:
                tags = [mode, "byte-offset", "why:library-partial"]
                results = [mc.isolated(_lib_trial, sb, oname, mode, ref, n)]
                what = "link of the first library of a later recompile (other options) killed after %d bytes" % n
            for kind, val in results:
                if kind == "ok":
                    for r in val:
                        r["tags"] = sorted(set(r["tags"]) | set(tags))
                        r["detail"] = what + ": " + r["detail"]
                        recs.append(r)
                elif kind == "signal":
                    recs.append({"observable": "process-killed", "tags": sorted(tags), "exception_type": mc.signame(val),
                                 "detail": "%s: the process calling transfer_model(%s, %s) died with %s" % (what, oname, mode, mc.signame(val))})
                else:
                    raise MachineryError("isolated trial ended with %s %s" % (kind, val))
            out.append((n, recs))
    finally:
        sb.close()
    return out


def _lib_trial(sb, oname, mode, ref, n):
    a = mc.api()
    other = "O2" if oname != "O2" else "O1"
    ag = mg.FreeAgent(link_cut=(1, n))
    old = os.getcwd()
    os.chdir(sb.cwd)
    try:
        with mg.Shims(a):
            res = ag.run(lambda: a.transfer_model(sb.model_folder, "M", sb.options(other, mode)))
    finally:
        os.chdir(old)
    if res[0] != "crashed":
        raise MachineryError("link step was not reached: %r" % (ag.trace,))
    gc.collect()
    return _two_calls(sb, oname, mode, ref)


def _two_calls(sb, oname, mode, ref):
    """the call that finds the damaged file, then one more (a valid cache must exist again) -> records"""
    recs = []
    for call in (1, 2):
        try:
            m = sb.transfer(oname, mode)
        except MachineryError:
            raise
        except Exception as e:
            r = exc_record(e)
            r.update(observable="exception", tags=["call%d" % call])
            r["detail"] = "call %d of transfer_model(%s, %s) raised %s" % (call, oname, mode, r["detail"][:300])
            recs.append(r)
            return recs
        hit = type(m).__name__ == "CachedModel"
        try:
            got = mc.project(m)
        except Exception as e:
            r = exc_record(e)
            r.update(observable="unusable-model", tags=["call%d" % call])
            r["detail"] = "call %d returned %s which cannot be evaluated: %s" % (call, type(m).__name__, r["detail"][:200])
            recs.append(r)
            return recs
        bad, _ = mc.compare(ref, got)
        if bad:
            recs.append({"observable": "wrong-model", "tags": ["call%d" % call, "hit" if hit else "miss"], "exception_type": None,
                         "detail": "call %d returned a model differing from a fresh compile in %s" % (call, sorted({b[0] for b in bad}))})
            return recs
        if call == 2 and not hit:
            recs.append({"observable": "no-recovery", "tags": ["call2"], "exception_type": None,
                         "detail": "the call after the repairing call was not served from the cache"})
        del m
        gc.collect()
    return recs


# ---------------------------------------------------------------------------------------------
def _tlc_job(job):
    cfg, workers = job
    try:
        return cfg, tlc.run("ModelCacheConc", "ModelCacheConc_%s.cfg" % cfg, workers=workers, timeout=1500), None
    except tlc.TLCError as e:
        if "Temporal propert" in str(e):
            return cfg, None, "temporal"
        raise


def _is_idle_state(s):
    return all(v["pc"] == "idle" for v in s["loc"].values())


def _paths_for(g, inits, thorough, seed, tour, n_walks, crash_classes=True):
    """paths (edge id lists) starting in an initial state and ending with every call finished"""
    import collections
    g.inits = inits

    def to_idle(path, start):
        cur = g.edges[path[-1]][2] if path else start
        if _is_idle_state(g.states[cur]):
            return path
        prev = {cur: None}
        q = collections.deque([cur])
        while q:
            s = q.popleft()
            if _is_idle_state(g.states[s]):
                tail = []
                while prev[s] is not None:
                    s, e = prev[s]
                    tail.append(e)
                return path + tail[::-1]
            for e in g.out[s]:
                d = g.edges[e][2]
                if d not in prev:
                    prev[d] = (s, e)
                    q.append(d)
        return path
    res = []
    if tour:
        paths, covered = g.tour(max_len=40)
        reach = set()
        stack = list(inits)
        seen = set(inits)
        while stack:
            s = stack.pop()
            for e in g.out[s]:
                reach.add(e)
                d = g.edges[e][2]
                if d not in seen:
                    seen.add(d)
                    stack.append(d)
        if len(covered) != len(reach):
            raise MachineryError("tour covered %d of %d reachable transitions" % (len(covered), len(reach)))
        res += [("tour", p) for p in paths]
    res += [("walk", p) for p in g.random_walks(n_walks, 40, seed + 21)]
    # directed: a shortest path to one edge of every class of finish / crash event
    classes = {}
    for ei, (s, act, d) in enumerate(g.edges):
        if act.get("ev") == "finish":
            wrong = act["kind"] in ("hit", "miss") and (act["vars"] != act["want"] or any(f != act["want"] for f in act["funs"]))
            key = ("finish", act["kind"], act["vars"] if act["kind"] == "raised" else wrong)
        elif act.get("ev") == "crash" and crash_classes:
            if crash_classes == "writer" and not act["at"].startswith("w_"):
                continue                      # quick, codegen: a crash while only reading leaves nothing behind
            key = ("crash", act["at"], act["k"])
        else:
            continue
        classes.setdefault(key, []).append(ei)
    dist = {}
    q = collections.deque()
    for i in inits:
        dist[i] = []
        q.append(i)
    while q:
        s = q.popleft()
        for e in g.out[s]:
            d = g.edges[e][2]
            if d not in dist:
                dist[d] = dist[s] + [e]
                q.append(d)
    for key, eis in sorted(classes.items(), key=lambda kv: json.dumps(kv[0], default=str)):
        best = None
        for ei in eis:
            s = g.edges[ei][0]
            if s in dist and (best is None or len(dist[s]) + 1 < len(best)):
                best = dist[s] + [ei]
        if best:
            res.append(("directed", best))
    out = []
    for kind, p in res:
        start = g.edges[p[0]][0] if p else inits[0]
        out.append((kind, to_idle(list(p), start)))
    return out


def run(ctx):
    thorough = ctx.tier == "thorough"
    t0 = time.time()
    checks = [("intended_cache", 2), ("intended_codegen", 2)] + ([("catchonly", 2)] if thorough else [])
    expect = {"asbuilt_noraise": "NoRaise", "asbuilt_wrong": "ReturnsCorrect", "asbuilt_live": "temporal"}
    if thorough:
        expect["atomiconly"] = "NoRaise"
    graphs = [gname for gname, (_m, _n, tier) in GRAPHS.items()
              if (thorough and tier != "quickonly") or (not thorough and tier in ("quick", "quickonly", "directed"))]
    if thorough:
        graphs.append("gi_conc_diff_q") if "gi_conc_diff_q" not in graphs else None
    jobs = checks + [(c, 1) for c in expect] + [(gname, 1) for gname in graphs]
    with ThreadPoolExecutor(4) as ex:
        results = {c: (r, flag) for c, r, flag in ex.map(_tlc_job, jobs)}
    for c, _w in checks:
        r, flag = results[c]
        if flag or r.violated:
            raise MachineryError("spec ModelCacheConc (%s) violates %s - spec bug" % (c, flag or r.violated))
        ctx.add_tlc(r, "intended / partially repaired variant must hold (%s)" % c)
    for c, what in expect.items():
        r, flag = results[c]
        if r is not None:
            ctx.add_tlc(r, "as-built variant, expected to violate %s (%s)" % (what, c))
        got = flag or (r.violated if r else [])
        if what != got and what not in got:
            raise MachineryError("as-built variant %s: expected violation of %s, TLC says %s" % (c, what, got))
    ctx.extra["asbuilt_counterexamples"] = {c: (results[c][1] or results[c][0].violated) for c in expect}
    ctx.extra["wall_tlc_s"] = round(time.time() - t0, 1)
    t0 = time.time()
    scratch = tempfile.mkdtemp(prefix="vfc21_")
    os.environ["VF_MC_SCRATCH"] = scratch
    try:
        scenarios, ginfo = [], {}
        for gname in graphs:
            mode, n, tier = GRAPHS[gname]
            r, _ = results[gname]
            ctx.add_tlc(r, "state graph with TR-log (%s)" % gname)
            g = graph.Graph(r.tr())
            inits = [k for k, s in g.states.items() if _is_idle_state(s) and s["crashes"] == 0 and _looks_initial(s, n)]
            if not inits:
                raise MachineryError("no initial state recognised in %s" % gname)
            tour = "directed" not in tier    # codegen: shortest paths to every finish class (thorough: and every crash point)
            plist = _paths_for(g, inits, thorough, ctx.seed, tour, (40 if thorough else 6) if tour else 0,
                               crash_classes=True if (tour or thorough) else "writer")
            size = calibrate(mode, n)
            for kind, p in plist:
                steps = g.steps(p)
                if not steps:
                    continue
                scenarios.append({"graph": gname, "kind": kind, "mode": mode, "n": n, "chunk": size,
                                  "sequential": "seq" in gname,
                                  "init": _classify_init(steps[0][0], n),
                                  "acts": [{"act": a, "pc_after": d["loc"][a["p"]]["pc"]} for (_s, a, d) in steps]})
            ginfo[gname] = {"states": g.n_states(), "transitions": g.n_edges(), "initial_states": len(inits),
                            "paths": len(plist)}
        scenarios.sort(key=lambda sc: -(len(sc["acts"]) * (20 if sc["mode"] == "codegen" else 1)))
        outs = par.pmap(run_path_safe, scenarios, procs(), chunksize=1)
        totals = {}
        for sc, out in zip(scenarios, outs):
            ctx.traces += 1
            for kx, v in out["stats"].items():
                totals[kx] = totals.get(kx, 0) + v
            for kx, v in out["drift"].items():
                ctx.note_drift(sc["graph"] + ":" + kx, v)
            for rec in out["records"]:
                ctx.violation(rec, {"kind": "schedule", "mode": sc["mode"], "n": sc["n"], "init": sc["init"],
                                    "sequential": sc["sequential"], "acts": sc["acts"][:rec.get("step", len(sc["acts"])) + 1]})
        for sc in scenarios[:1] + [s for s in scenarios if s["kind"] == "directed"][:2]:
            ctx.sample({"graph": sc["graph"], "kind": sc["kind"], "init": sc["init"],
                        "schedule": ["%s:%s" % (x["act"]["p"], x["act"]["ev"]) for x in sc["acts"][:30]]})
        for need in ("start", "r_stat", "r_open", "r_read", "w_open", "w_write", "crash", "finish", "miss"):
            if not totals.get(need):
                raise MachineryError("vacuous: spec step %s never replayed" % need)
        ctx.extra["graphs"] = ginfo
        ctx.extra["replayed"] = totals
        ctx.extra["wall_replay_s"] = round(time.time() - t0, 1)
        t0 = time.time()
        # byte offsets
        jobs = []
        for mode, oname in ([("cache", "O1"), ("cache", "O2"), ("codegen", "O1")] if thorough else [("cache", "O1")]):
            ln = _cache_len(mode, oname)
            if thorough and (mode, oname) == ("cache", "O1"):
                offs = list(range(ln))                      # every byte offset
            elif thorough and mode == "cache":
                offs = list(range(0, ln, 5)) + [ln - 1]     # another option set: every 5th
            elif thorough:
                offs = sorted(set(list(range(0, 16)) + list(range(0, ln, 61)) + [ln - 2, ln - 1]))   # codegen: each trial relinks 4 libraries
            else:
                offs = sorted(set([0, 1, 2, 3, 10, 11, 12, ln - 1, ln - 2, ln // 2, 4095, 4096, 4097, 8191, 8192, 8193]
                                  + [int(i * ln / 49.0) for i in range(49)]))
                offs = [o for o in offs if 0 <= o < ln][:64]
            nj = max(1, min(len(offs), procs() * 4))
            for i in range(nj):
                jobs.append({"mode": mode, "oname": oname, "what": "cache", "offsets": offs[i::nj]})
        lib_offs = [0, 1, 64, 4096, 8192, -1] if not thorough else sorted(set([0, 1, 63, 64, 65, -1, -2] + list(range(0, 32000, 997))))
        nj = max(1, min(len(lib_offs), procs()))
        for i in range(nj):
            jobs.append({"mode": "codegen", "oname": "O1", "what": "lib", "offsets": lib_offs[i::nj]})
        if not thorough:
            for off in (0, 2, 100, -1):       # one job each: every trial relinks four libraries
                jobs.append({"mode": "codegen", "oname": "O1", "what": "cache", "offsets": [off]})
        jobs.sort(key=lambda j: 0 if j["mode"] == "codegen" else 1)      # the expensive (relinking) trials first
        outs = par.pmap(_offset_trial, jobs, procs(), chunksize=1)
        ntr = 0
        for job, out in zip(jobs, outs):
            for n, recs in out:
                ntr += 1
                ctx.programs += 1
                for rec in recs:
                    ctx.violation(rec, {"kind": "crashpoint", "mode": job["mode"], "oname": job["oname"], "what": job["what"], "offset": n})
        if not ntr:
            raise MachineryError("vacuous: no byte-offset trial ran")
        ctx.extra["byte_offset_trials"] = ntr
        ctx.extra["wall_offsets_s"] = round(time.time() - t0, 1)
        # binding self-test: a schedule in which the reader meets a half-written file MUST be observed as
        # something other than a clean hit of the old content, i.e. the gates really interleave the threads
        _selftest()
    finally:
        shutil.rmtree(scratch, ignore_errors=True)
        os.environ.pop("VF_MC_SCRATCH", None)
    print("C21 timing: tlc %.0fs, schedule replay of %d paths %.0fs, %d byte-offset trials %.0fs" % (
        ctx.extra["wall_tlc_s"], len(scenarios), ctx.extra["wall_replay_s"], ntr, ctx.extra["wall_offsets_s"]), flush=True)
    ctx.assumptions += ["a crash is modelled as the process stopping at a gate; data handed to write() but not yet flushed is lost",
                        "the cache file becomes visible to other processes in chunk-sized pieces (3 chunks; every byte prefix is covered separately)",
                        "the linker's output file is unlinked, re-created and filled in two steps (what GNU ld does as seen from other processes)"]
    return {"exhaustive": True}


def _looks_initial(s, n):
    if any(v != 0 for v in s["gen"].values()):
        return False
    if not s["exists"]:
        return s["cells"] == []
    return len(s["cells"]) in (1, n) and all(c["o"] == "o1" for c in s["cells"])


_lens = {}


def _cache_len(mode, oname):
    if (mode, oname) not in _lens:
        sb = mc.Sandbox(INIT_FILES)
        try:
            m = sb.transfer(oname, mode)
            del m
            gc.collect()
            _lens[(mode, oname)] = os.path.getsize(sb.cache_file)
        finally:
            sb.close()
    return _lens[(mode, oname)]


def _selftest():
    """The gates must really interleave threads: a reader that opened the file, then a writer that
    truncates it, then the reader's read -> the reader sees an empty file; the other order -> the old bytes."""
    import builtins
    d = tempfile.mkdtemp(prefix="vfc21st_")
    try:
        path = os.path.join(d, "X.pymoca_cache")
        gopen = mg.make_open(builtins.open)
        seen = {}
        for order in ("truncate-first", "read-first"):
            with open(path, "wb") as f:
                f.write(b"old-old-old-old")
            ctl = mg.Controller()

            def reader():
                with gopen(path, "rb") as f:
                    return f.read()

            def writer():
                with gopen(path, "wb") as f:
                    f.write(b"NEW-NEW-NEW-NEW-NEW")
            ctl.start("r", reader, 1, 64)        # at r_open
            ctl.advance("r")                     # opened, at r_read(1)
            ctl.start("w", writer, 1, 64)        # at w_open
            if order == "truncate-first":
                ctl.advance("w")                 # truncated, at w_write(1)
                ctl.advance("r")
            else:
                ctl.advance("r")
                ctl.advance("w")
            ctl.drain()
            seen[order] = ctl.agents["r"].outcome
        if seen["truncate-first"] != ("ok", b"") or seen["read-first"] != ("ok", b"old-old-old-old"):
            raise MachineryError("binding self-test failed: gates do not interleave reader and writer as scheduled: %r" % (seen,))
    finally:
        shutil.rmtree(d, ignore_errors=True)


def replay(ctx, sc):
    scratch = tempfile.mkdtemp(prefix="vfc21_")
    os.environ["VF_MC_SCRATCH"] = scratch
    try:
        if sc.get("kind") == "crashpoint":
            out = _offset_trial({"mode": sc["mode"], "oname": sc["oname"], "what": sc["what"], "offsets": [sc["offset"]]})
            return [r for _n, recs in out for r in recs]
        return run_path_safe(dict(sc, stop_at_first=False))["records"]
    finally:
        shutil.rmtree(scratch, ignore_errors=True)
        os.environ.pop("VF_MC_SCRATCH", None)
