\* intended switches; all families; section interleavings up to 3 sections
CONSTANTS
  Switches <- Intended
  Families = {"clause", "sections", "struct", "dup", "comments"}
  MaxSections = 3
INIT Init
NEXT Next
VIEW View
ACTION_CONSTRAINT Emit
INVARIANT OperationalIsDeclarative
INVARIANT NoSharedObjects
INVARIANT NoSharedSubLists
INVARIANT OrdersIncrease
INVARIANT HeapWellFormed
INVARIANT NamesUnique
PROPERTY CounterMonotone
PROPERTY TypesStable
CHECK_DEADLOCK FALSE
