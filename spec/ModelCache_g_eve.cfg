\* graph: option sets that differ only in the VALUE of a non-boolean option (eliminable_variable_expression)
CONSTANTS K = 2
          Editable = {"M"}
          Addable = {}
          OptNames = {"O1","O5","O6"}
          Modes = {"cache"}
          Versions = {1}
          Holds = {FALSE}
          MaxClock = 1000000
          LibFoldersInKey = TRUE
          Beyond = {}
          OptionValuesCompared = TRUE
          FreshLibHandles = TRUE
INIT Init
NEXT Next
VIEW View
ACTION_CONSTRAINT Log
CHECK_DEADLOCK FALSE
