\* C13 family (quick): attribute expressions x variable kinds; invariants = the property on the model of the generator
CONSTANTS Tier = "quick"
INIT Init
NEXT Next
INVARIANT WellShaped
INVARIANT MetaAgrees
INVARIANT TypesKept
INVARIANT AffineSound
CHECK_DEADLOCK FALSE
