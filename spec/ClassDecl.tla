------------------------------ MODULE ClassDecl ------------------------------
(* Property C04.  Class structure built by pymoca's front end
   (src/pymoca/parser.py::ASTListener: enter/exitClass_definition, exitClass_spec_comp,
   exitComposition, enter/exitComponent_clause, enter/exitComponent_declaration,
   enter/exitDeclaration, enterElement_modification, exitExtends_clause,
   exitImport_clause, exitEquation_section, exitAlgorithm_section).

   A class declaration is DATA (sections; component clauses with declarators,
   prefixes, clause- and declarator-level dimensions, modifications, comments;
   extends, imports, nested classes; equation / algorithm sections).

   Two independent definitions of what the parsed class must contain:

   * OPERATIONAL: the listener as the event machine it is.  `Events(c)` is the
     sequence of listener callbacks the parse-tree walk makes for class c;
     `Handle(m, ev, sw)` is one callback acting on the machine state m:
     a HEAP of objects with identities (classes, clauses, symbols, prefix lists,
     type references, dimension lists and their sub-lists), the stack of open
     classes, the current clause / symbol, the order counter, the open element
     lists and the composition's labelled lists.  The code first lets all
     declarators of a clause share one type / prefixes / dimensions object and
     un-shares them by copying when the clause is left; this is modelled by
     object identity.
   * DECLARATIVE: `Declared(c)` reads the expected content straight off the data.

   `sw` is the record of AS-BUILT switches (DESIGN 2.4): where the pinned code is
   known to deviate, the deviation is a Boolean of sw.  The behaviour runs the
   machine with the switches of the cfg (Switches <- Intended / AsBuilt); for
   every finished program the result under the as-built switches is printed
   as well, so the harness can tell "code = intended", "code = as built" and
   "code is something else" apart.

   TLC checks (intended switches): operational projection = declarative content;
   no two symbols share a mutable object (top level, and sub-lists); order
   numbers strictly increase in declaration order; duplicates are rejected;
   heap well-formedness and counter monotonicity along the walk.              *)
EXTENDS Integers, Sequences, FiniteSets, TLC, Json, IOUtils

CONSTANTS Switches,     \* record of as-built switches in force for the behaviour
          Families,     \* which program families Init draws from
          MaxSections   \* length bound of the section-interleaving family

VARIABLES prog,    \* the class declaration chosen by Init
          evs,     \* its callback sequence
          pc,      \* index of the next callback
          m,       \* listener state
          last,    \* name of the last callback (history; hidden by VIEW)
          hist     \* history: after every callback [name, order counter, open classes, in extends clause, a current symbol?]
vars == <<prog, evs, pc, m, last, hist>>

Intended == [fusePrefixes |-> FALSE, labelKeepsLast |-> FALSE, clauseDimsOverride |-> FALSE,
             shallowDimsCopy |-> FALSE, commentKeepsQuotes |-> FALSE, importListFuses |-> FALSE, noUnshare |-> FALSE]
AsBuilt  == [fusePrefixes |-> TRUE, labelKeepsLast |-> TRUE, clauseDimsOverride |-> TRUE,
             shallowDimsCopy |-> TRUE, commentKeepsQuotes |-> TRUE, importListFuses |-> TRUE, noUnshare |-> FALSE]

Range(s) == {s[i] : i \in DOMAIN s}
RECURSIVE Concat(_), JoinWith(_, _), Flatten(_)
Concat(ss) == IF ss = <<>> THEN "" ELSE Head(ss) \o Concat(Tail(ss))                    \* strings
JoinWith(ss, sep) == IF Len(ss) <= 1 THEN Concat(ss) ELSE Head(ss) \o sep \o JoinWith(Tail(ss), sep)
Flatten(ss) == IF ss = <<>> THEN <<>> ELSE Head(ss) \o Flatten(Tail(ss))                  \* sequences
Last(s) == s[Len(s)]

-----------------------------------------------------------------------------
(* 1. Class declarations as data.                                              *)
Decl(name, ddims, attrs, value, comment) ==
    [name |-> name, ddims |-> ddims, attrs |-> attrs, value |-> value, comment |-> comment]
    \* ddims: declarator subscripts; attrs: <<  <<attribute, value>> ... >>; value: "" or the declaration value;
    \* comment: pieces of the string comment (<<>> none, <<"a","b">> = "a" + "b")
Clause(prefixes, type, cdims, decls) ==
    [k |-> "clause", prefixes |-> prefixes, type |-> type, cdims |-> cdims, decls |-> decls]
    \* prefixes: keywords as written; type: name parts (<<"Lib","T">> = Lib.T); cdims: subscripts after the type
ExtendsEl(base, mods) == [k |-> "extends", base |-> base, mods |-> mods]
ImportEl(form, path, names) == [k |-> "import", form |-> form, path |-> path, names |-> names]
    \* form "qual": import a.b;  "renamed": import n = a.b;  "star": import a.b.*;  "list": import a.b.{n1, n2, ..}
NestedEl(c) == [k |-> "class", c |-> c]
ShortEl(name, base, mods) == [k |-> "short", name |-> name, base |-> base, mods |-> mods]     \* type name = base(mods);
ElemSec(vis, elems) == [k |-> "elems", vis |-> vis, elems |-> elems]       \* vis: "first" (unnamed), "public", "protected"
EqSec(initial, ids) == [k |-> "eq", initial |-> initial, ids |-> ids]       \* ids: each equation is  e<id> = <id>;
AlgSec(initial, ids) == [k |-> "alg", initial |-> initial, ids |-> ids]     \* each statement is  s<id> := <id>;
Class(name, comment, sections) == [name |-> name, kind |-> "model", comment |-> comment, sections |-> sections]

-----------------------------------------------------------------------------
(* 2. DECLARATIVE content of a class.                                          *)
RECURSIVE Declared(_)
ClausesOf(c) == Flatten([i \in DOMAIN c.sections |->
                    IF c.sections[i].k = "elems"
                    THEN [j \in DOMAIN c.sections[i].elems |-> [el |-> c.sections[i].elems[j], sec |-> i, vis |-> c.sections[i].vis]]
                    ELSE <<>>])
DeclaredComponents(c) ==
    Flatten([i \in DOMAIN ClausesOf(c) |->
        LET x == ClausesOf(c)[i] IN
        IF x.el.k # "clause" THEN <<>>
        ELSE [j \in DOMAIN x.el.decls |->
                LET d == x.el.decls[j] IN
                [name |-> d.name, type |-> x.el.type, prefixes |-> x.el.prefixes,
                 dims |-> d.ddims \o x.el.cdims,                       \* T[c] x[d]  is  T x[d, c]
                 vis |-> x.vis, comment |-> Concat(d.comment),
                 mods |-> d.attrs \o (IF d.value = "" THEN <<>> ELSE << <<"value", d.value>> >>)]]])
IdsOf(c, kind, initial) == Flatten([i \in DOMAIN c.sections |->
                              IF c.sections[i].k = kind /\ c.sections[i].initial = initial THEN c.sections[i].ids ELSE <<>>])
ImportEntries(el) ==
    CASE el.form = "qual"    -> << [key |-> Last(el.path), kind |-> "qual", paths |-> <<el.path>>] >>
      [] el.form = "renamed" -> << [key |-> el.names[1], kind |-> "renamed", paths |-> <<el.path>>] >>
      [] el.form = "star"    -> << [key |-> "*", kind |-> "star", paths |-> <<el.path>>] >>
      [] el.form = "list"    -> [i \in DOMAIN el.names |-> [key |-> el.names[i], kind |-> "qual", paths |-> <<el.path \o <<el.names[i]>> >>]]
(* several  import x.*;  clauses are collected under the one key "*" *)
RECURSIVE MergeStars(_, _)
MergeStars(entries, acc) ==
    IF entries = <<>> THEN acc
    ELSE LET e == Head(entries) IN
         IF e.kind = "star" /\ \E i \in DOMAIN acc : acc[i].key = "*"
         THEN MergeStars(Tail(entries), [i \in DOMAIN acc |-> IF acc[i].key = "*" THEN [acc[i] EXCEPT !.paths = @ \o e.paths] ELSE acc[i]])
         ELSE MergeStars(Tail(entries), Append(acc, e))
Declared(c) ==
    LET els == ClausesOf(c) IN
    [name |-> c.name, comment |-> c.comment,
     comps |-> DeclaredComponents(c),
     eqs |-> IdsOf(c, "eq", FALSE), ieqs |-> IdsOf(c, "eq", TRUE),
     stmts |-> IdsOf(c, "alg", FALSE), istmts |-> IdsOf(c, "alg", TRUE),
     extends |-> Flatten([i \in DOMAIN els |-> IF els[i].el.k = "extends"
                            THEN << [base |-> els[i].el.base, mods |-> els[i].el.mods, vis |-> els[i].vis] >> ELSE <<>>]),
     imports |-> MergeStars(Flatten([i \in DOMAIN els |-> IF els[i].el.k = "import" THEN ImportEntries(els[i].el) ELSE <<>>]), <<>>),
     classes |-> Flatten([i \in DOMAIN els |->
                    CASE els[i].el.k = "class" -> << Declared(els[i].el.c) >>
                      [] els[i].el.k = "short" -> << [name |-> els[i].el.name, comment |-> "", comps |-> <<>>, eqs |-> <<>>, ieqs |-> <<>>,
                                                      stmts |-> <<>>, istmts |-> <<>>, imports |-> <<>>, classes |-> <<>>,
                                                      extends |-> << [base |-> els[i].el.base, mods |-> els[i].el.mods, vis |-> "first"] >>] >>
                      [] OTHER -> <<>>])]

RECURSIVE HasDuplicate(_)
HasDuplicate(c) ==      \* a component name declared twice in one class (any nesting level)
    LET names == [i \in DOMAIN DeclaredComponents(c) |-> DeclaredComponents(c)[i].name] IN
    \/ \E i, j \in DOMAIN names : i < j /\ names[i] = names[j]
    \/ \E i \in DOMAIN ClausesOf(c) : ClausesOf(c)[i].el.k = "class" /\ HasDuplicate(ClausesOf(c)[i].el.c)

-----------------------------------------------------------------------------
(* 3. The callbacks of the parse-tree walk, in walk order.                     *)
Ev(e, a) == [e |-> e, a |-> a]
None == [none |-> TRUE]
RECURSIVE Events(_)
DeclEvents(d) ==
       << Ev("EnterComponentDeclaration", None), Ev("EnterDeclaration", [name |-> d.name]) >>
    \o [i \in DOMAIN d.attrs |-> Ev("EnterElementModification", None)]
    \o << Ev("ExitDeclaration", [ddims |-> d.ddims, attrs |-> d.attrs, value |-> d.value]),
          Ev("ExitComponentDeclaration", [comment |-> d.comment]) >>
ElementEvents(el) ==
    CASE el.k = "clause" ->
              << Ev("EnterComponentClause", [prefixes |-> el.prefixes]) >>
           \o Flatten([i \in DOMAIN el.decls |-> DeclEvents(el.decls[i])])
           \o << Ev("ExitComponentClause", [type |-> el.type, cdims |-> el.cdims]) >>
      [] el.k = "extends" ->
              << Ev("EnterExtendsClause", None) >>
           \o [i \in DOMAIN el.mods |-> Ev("EnterElementModification", None)]
           \o << Ev("ExitExtendsClause", [base |-> el.base, mods |-> el.mods]) >>
      [] el.k = "import" -> << Ev("ExitImportClause", [form |-> el.form, path |-> el.path, names |-> el.names]) >>
      [] el.k = "class"  -> Events(el.c)
      [] el.k = "short"  ->
              << Ev("EnterClassDefinition", [kind |-> "type"]) >>
           \o [i \in DOMAIN el.mods |-> Ev("EnterElementModification", None)]
           \o << Ev("ExitClassSpecBase", [name |-> el.name, base |-> el.base, mods |-> el.mods]), Ev("ExitClassDefinition", None) >>
SectionEvents(s) ==
    CASE s.k = "elems" -> << Ev("EnterElementList", None) >>
                          \o Flatten([i \in DOMAIN s.elems |-> ElementEvents(s.elems[i])])
                          \o << Ev("ExitElementList", [label |-> CASE s.vis = "first" -> "epriv" [] s.vis = "public" -> "epub"
                                                                    [] s.vis = "protected" -> "epro"]) >>
      [] s.k = "eq"  -> << Ev("ExitEquationSection", [initial |-> s.initial, ids |-> s.ids]) >>
      [] s.k = "alg" -> << Ev("ExitAlgorithmSection", [initial |-> s.initial, ids |-> s.ids]) >>
Events(c) ==
       << Ev("EnterClassDefinition", [kind |-> c.kind]) >>
    \o Flatten([i \in DOMAIN c.sections |-> SectionEvents(c.sections[i])])
    \o << Ev("ExitComposition", None), Ev("ExitClassSpec", [name |-> c.name, comment |-> c.comment]),
          Ev("ExitClassDefinition", None) >>

-----------------------------------------------------------------------------
(* 4. The listener state and one callback.
   Heap objects (m.h is a sequence, the identity of an object is its index):
     class   [o, name, comment, symbols (ids in insertion order), classes, extends, imports,
              eqs, ieqs, stmts, istmts, epriv, epub, epro (labelled clause lists), eqsects, algsects]
     clause  [o, prefixes, type, dims (ids), symlist (symbol ids)]
     symbol  [o, name, type, prefixes, dims (ids), order, vis, comment, mods]
     plist   [o, v: keywords]      tref [o, v: name parts]
     dims    [o, v: ids of sub-lists]      sub [o, v: subscripts; <<"none">> = the default [None]]
     ext     [o, base, mods, vis]                                                  *)
NewClass(kind) == [o |-> "class", kind |-> kind, name |-> "", comment |-> "", symbols |-> <<>>, classes |-> <<>>,
                   extends |-> <<>>, imports |-> <<>>, eqs |-> <<>>, ieqs |-> <<>>, stmts |-> <<>>, istmts |-> <<>>,
                   epriv |-> <<>>, epub |-> <<>>, epro |-> <<>>, eqsects |-> <<>>, algsects |-> <<>>]
InitM == [h |-> << NewClass("root") >>,     \* the listener starts with a dummy root class on its stack
          stk |-> <<1>>, clause |-> 0, dflt |-> 0, symnode |-> 0, symcount |-> 0, inext |-> FALSE, open |-> <<>>, err |-> ""]
          \* clause: current ComponentClause, dflt: its default dimensions object, symnode: current Symbol, open: stack of
          \* element lists being collected, err: message of the exception that ended the walk
Top(mm) == Last(mm.stk)
Alloc(mm, obj) == [mm EXCEPT !.h = Append(@, obj)]
NewId(mm) == Len(mm.h) + 1
SymByName(mm, cls, name) == LET ids == {i \in Range(mm.h[cls].symbols) : mm.h[i].name = name}
                            IN  IF ids = {} THEN 0 ELSE CHOOSE i \in ids : TRUE
(* append a finished element to the innermost open element list *)
PushElement(mm, id) == IF mm.open = <<>> THEN mm
                       ELSE [mm EXCEPT !.open = [@ EXCEPT ![Len(@)] = Append(@, id)]]

(* the imports dictionary of a class after one import clause; "dup" signals the IOError of the simple case *)
ImportStep(imps, a, sw) ==
    LET names == IF a.form = "list" /\ sw.importListFuses /\ Len(a.names) >= 3
                 THEN << a.names[1], JoinWith(Tail(a.names), ",") >>       \* the grammar nests the rest of the list
                 ELSE a.names
        entries == ImportEntries([form |-> a.form, path |-> a.path, names |-> names])
    IN  MergeStars(entries, imps)
ImportClash(imps, a) ==
    a.form \in {"qual", "list"} /\ \E i \in DOMAIN imps, j \in DOMAIN ImportEntries([form |-> a.form, path |-> a.path, names |-> a.names]) :
        imps[i].key = ImportEntries([form |-> a.form, path |-> a.path, names |-> a.names])[j].key

RECURSIVE SetVis(_, _, _), Unshare(_, _, _), ClauseDims(_, _, _)
(* exitComposition: every symbol of every clause of a labelled list gets the label's visibility *)
SetVis(h, ids, vis) ==
    IF ids = <<>> THEN h
    ELSE LET x == Head(ids) IN
         SetVis(CASE h[x].o = "clause" -> [i \in DOMAIN h |-> IF i \in Range(h[x].symlist) THEN [h[i] EXCEPT !.vis = vis] ELSE h[i]]
                  [] h[x].o = "ext"    -> [h EXCEPT ![x] = [@ EXCEPT !.vis = vis]]
                  [] OTHER -> h,
                Tail(ids), vis)
(* exitComponent_clause, part 1: clause-level subscripts reach every symbol of the clause *)
ClauseDims(mm, syms, sw) ==
    IF syms = <<>> THEN mm
    ELSE LET s == Head(syms)
             cd == mm.h[mm.clause].dims
         IN  IF sw.clauseDimsOverride
             THEN ClauseDims([mm EXCEPT !.h = [@ EXCEPT ![s] = [@ EXCEPT !.dims = cd]]], Tail(syms), sw)
             ELSE \* declarator subscripts first, then the clause's: a fresh list holding the symbol's own sub-lists and a copy of the clause's
                  LET own == IF mm.h[s].dims = mm.dflt THEN <<>> ELSE mm.h[mm.h[s].dims].v
                      m1 == Alloc(mm, [o |-> "sub", v |-> mm.h[mm.h[cd].v[1]].v])
                      m2 == Alloc(m1, [o |-> "dims", v |-> own \o <<NewId(mm)>>])
                  IN  ClauseDims([m2 EXCEPT !.h = [@ EXCEPT ![s] = [@ EXCEPT !.dims = NewId(m1)]]], Tail(syms), sw)
(* exitComponent_clause, part 2: every symbol but the first gets its own copies *)
RECURSIVE CopySubs(_, _, _)
CopySubs(mm, ids, acc) ==     \* deep copy of the sub-lists: returns [m, ids]
    IF ids = <<>> THEN [m |-> mm, ids |-> acc]
    ELSE CopySubs(Alloc(mm, mm.h[Head(ids)]), Tail(ids), Append(acc, NewId(mm)))
Unshare(mm, syms, sw) ==
    IF syms = <<>> \/ sw.noUnshare THEN mm
    ELSE LET s == Head(syms)
             subs == IF sw.shallowDimsCopy THEN [m |-> mm, ids |-> mm.h[mm.h[s].dims].v]
                     ELSE CopySubs(mm, mm.h[mm.h[s].dims].v, <<>>)
             m1 == Alloc(subs.m, [o |-> "dims", v |-> subs.ids])                       \* list(s.dimensions)
             m2 == Alloc(m1, [o |-> "plist", v |-> mm.h[mm.h[s].prefixes].v])          \* list(s.prefixes)
             m3 == Alloc(m2, [o |-> "tref", v |-> mm.h[mm.h[mm.clause].type].v])       \* deepcopy(clause.type)
             m4 == [m3 EXCEPT !.h = [@ EXCEPT ![s] = [@ EXCEPT !.dims = NewId(subs.m), !.prefixes = NewId(m1), !.type = NewId(m2)]]]
         IN  Unshare(m4, Tail(syms), sw)

Handle(mm, ev, sw) ==
    LET a == ev.a  cls == Top(mm) IN
    IF mm.err # "" THEN mm        \* an exception has ended the walk
    ELSE CASE
       ev.e = "EnterClassDefinition" ->
            [Alloc(mm, NewClass(a.kind)) EXCEPT !.stk = Append(@, NewId(mm))]
    [] ev.e = "EnterElementList" -> [mm EXCEPT !.open = Append(@, <<>>)]
    [] ev.e = "ExitElementList" ->
            LET lst == Last(mm.open)
                m1 == [mm EXCEPT !.open = SubSeq(@, 1, Len(@) - 1)]
                new == IF sw.labelKeepsLast \/ a.label = "epriv" THEN lst      \* a grammar label holds the LAST list matched
                       ELSE (IF a.label = "epub" THEN mm.h[cls].epub ELSE mm.h[cls].epro) \o lst
            IN  [m1 EXCEPT !.h = [@ EXCEPT ![cls] = CASE a.label = "epriv" -> [@ EXCEPT !.epriv = new]
                                                       [] a.label = "epub"  -> [@ EXCEPT !.epub = new]
                                                       [] a.label = "epro"  -> [@ EXCEPT !.epro = new]]]
    [] ev.e = "EnterComponentClause" ->
            LET words == IF sw.fusePrefixes /\ a.prefixes # <<>> THEN <<Concat(a.prefixes)>> ELSE a.prefixes
                m1 == Alloc(mm, [o |-> "plist", v |-> words])
                m2 == Alloc(m1, [o |-> "tref", v |-> <<>>])                 \* filled when the clause is left
                m3 == Alloc(m2, [o |-> "sub", v |-> <<"none">>])
                m4 == Alloc(m3, [o |-> "dims", v |-> <<NewId(m2)>>])
                m5 == Alloc(m4, [o |-> "clause", prefixes |-> NewId(mm), type |-> NewId(m1), dims |-> NewId(m3), symlist |-> <<>>])
            IN  [m5 EXCEPT !.clause = NewId(m4), !.dflt = NewId(m3)]
    [] ev.e = "EnterComponentDeclaration" ->
            LET m1 == Alloc(mm, [o |-> "symbol", name |-> "", type |-> 0, prefixes |-> 0, dims |-> 0, order |-> mm.symcount,
                                 vis |-> "private", comment |-> "", mods |-> <<>>])
            IN  [m1 EXCEPT !.symcount = @ + 1, !.symnode = NewId(mm),
                           !.h = [@ EXCEPT ![mm.clause] = [@ EXCEPT !.symlist = Append(@, NewId(mm))]]]
    [] ev.e = "EnterDeclaration" ->
            LET s == mm.symnode  c == mm.h[mm.clause]
                m1 == [mm EXCEPT !.h = [@ EXCEPT ![s] = [@ EXCEPT !.name = a.name, !.dims = c.dims, !.prefixes = c.prefixes, !.type = c.type]]]
            IN  IF mm.inext THEN m1
                ELSE IF SymByName(mm, cls, a.name) # 0 THEN [m1 EXCEPT !.err = "already defined"]
                ELSE [m1 EXCEPT !.h = [@ EXCEPT ![cls] = [@ EXCEPT !.symbols = Append(@, s)]]]
    [] ev.e = "EnterElementModification" ->
            IF mm.symnode # 0 THEN mm
            ELSE LET m1 == Alloc(mm, [o |-> "symbol", name |-> "", type |-> 0, prefixes |-> 0, dims |-> 0, order |-> mm.symcount,
                                      vis |-> "private", comment |-> "", mods |-> <<>>])
                 IN  [m1 EXCEPT !.symcount = @ + 1, !.symnode = NewId(mm)]      \* a scratch symbol; it is never reset by the extends clause
    [] ev.e = "ExitDeclaration" ->
            LET s == mm.symnode
                m1 == IF a.ddims = <<>> THEN mm
                      ELSE LET x1 == Alloc(mm, [o |-> "sub", v |-> a.ddims])
                               x2 == Alloc(x1, [o |-> "dims", v |-> <<NewId(mm)>>])
                           IN  [x2 EXCEPT !.h = [@ EXCEPT ![s] = [@ EXCEPT !.dims = NewId(x1)]]]
                mods == a.attrs \o (IF a.value = "" THEN <<>> ELSE << <<"value", a.value>> >>)
            IN  [m1 EXCEPT !.h = [@ EXCEPT ![s] = [@ EXCEPT !.mods = mods]]]
    [] ev.e = "ExitComponentDeclaration" ->
            LET txt == IF sw.commentKeepsQuotes THEN JoinWith(a.comment, "\"+\"") ELSE Concat(a.comment)
            IN  [mm EXCEPT !.h = [@ EXCEPT ![mm.symnode] = [@ EXCEPT !.comment = txt]], !.symnode = 0]
    [] ev.e = "ExitComponentClause" ->
            LET c == mm.h[mm.clause]
                m1 == [mm EXCEPT !.h = [@ EXCEPT ![c.type] = [@ EXCEPT !.v = a.type]]]      \* the shared type object is filled in place
                m2 == IF a.cdims = <<>> THEN m1
                      ELSE LET x1 == Alloc(m1, [o |-> "sub", v |-> a.cdims])
                               x2 == Alloc(x1, [o |-> "dims", v |-> <<NewId(m1)>>])
                               x3 == [x2 EXCEPT !.h = [@ EXCEPT ![mm.clause] = [@ EXCEPT !.dims = NewId(x1)]]]
                           IN  ClauseDims(x3, c.symlist, sw)
                m3 == Unshare(m2, Tail(c.symlist), sw)
            IN  PushElement(m3, mm.clause)
    [] ev.e = "EnterExtendsClause" -> [mm EXCEPT !.inext = TRUE]
    [] ev.e = "ExitExtendsClause" ->
            LET m1 == Alloc(mm, [o |-> "ext", base |-> a.base, mods |-> a.mods, vis |-> "private"])
                m2 == [m1 EXCEPT !.h = [@ EXCEPT ![cls] = [@ EXCEPT !.extends = Append(@, NewId(mm))]], !.inext = FALSE]
            IN  PushElement(m2, NewId(mm))
    [] ev.e = "ExitImportClause" ->
            IF ImportClash(mm.h[cls].imports, a) THEN [mm EXCEPT !.err = "already imported"]
            ELSE [mm EXCEPT !.h = [@ EXCEPT ![cls] = [@ EXCEPT !.imports = ImportStep(@, a, sw)]]]
    [] ev.e = "ExitEquationSection" ->
            [mm EXCEPT !.h = [@ EXCEPT ![cls] = [@ EXCEPT !.eqsects = Append(@, [initial |-> a.initial, ids |-> a.ids])]]]
    [] ev.e = "ExitAlgorithmSection" ->
            [mm EXCEPT !.h = [@ EXCEPT ![cls] = [@ EXCEPT !.algsects = Append(@, [initial |-> a.initial, ids |-> a.ids])]]]
    [] ev.e = "ExitComposition" ->
            LET c == mm.h[cls]
                h1 == SetVis(SetVis(SetVis(mm.h, c.epriv, "private"), c.epub, "public"), c.epro, "protected")
                pick(sects, ini) == Flatten([i \in DOMAIN sects |-> IF sects[i].initial = ini THEN sects[i].ids ELSE <<>>])
            IN  [mm EXCEPT !.h = [h1 EXCEPT ![cls] = [@ EXCEPT !.eqs = pick(c.eqsects, FALSE), !.ieqs = pick(c.eqsects, TRUE),
                                                               !.stmts = pick(c.algsects, FALSE), !.istmts = pick(c.algsects, TRUE)]]]
    [] ev.e = "ExitClassSpecBase" ->      \* short class definition: the base becomes an extends clause of the new class
            LET m1 == Alloc(mm, [o |-> "ext", base |-> a.base, mods |-> a.mods, vis |-> "private"])
            IN  [m1 EXCEPT !.h = [@ EXCEPT ![cls] = [@ EXCEPT !.name = a.name, !.extends = Append(@, NewId(mm))]]]
    [] ev.e = "ExitClassSpec" -> [mm EXCEPT !.h = [@ EXCEPT ![cls] = [@ EXCEPT !.name = a.name, !.comment = a.comment]]]
    [] ev.e = "ExitClassDefinition" ->
            LET parent == mm.stk[Len(mm.stk) - 1]
                others == SelectSeq(mm.h[parent].classes, LAMBDA i : mm.h[i].name # mm.h[cls].name)    \* dictionary: same name replaces
                m1 == [mm EXCEPT !.stk = SubSeq(@, 1, Len(@) - 1),
                                 !.h = [@ EXCEPT ![parent] = [@ EXCEPT !.classes = Append(others, cls)]]]
            IN  PushElement(m1, cls)

RECURSIVE RunFrom(_, _, _, _)
RunFrom(mm, es, i, sw) == IF i > Len(es) THEN mm ELSE RunFrom(Handle(mm, es[i], sw), es, i + 1, sw)
RunAll(c, sw) == RunFrom(InitM, Events(c), 1, sw)

-----------------------------------------------------------------------------
(* 5. OPERATIONAL content: what the heap holds for a class, with identities resolved.        *)
RECURSIVE Projected(_, _)
SubsOf(h, d) == Flatten([i \in DOMAIN h[d].v |-> IF h[h[d].v[i]].v = <<"none">> THEN <<>> ELSE h[h[d].v[i]].v])
Projected(h, cls) ==
    LET c == h[cls] IN
    [name |-> c.name, comment |-> c.comment,
     comps |-> [i \in DOMAIN c.symbols |-> LET s == h[c.symbols[i]] IN
                  [name |-> s.name, type |-> h[s.type].v, prefixes |-> h[s.prefixes].v, dims |-> SubsOf(h, s.dims),
                   vis |-> s.vis, comment |-> s.comment, mods |-> s.mods]],
     eqs |-> c.eqs, ieqs |-> c.ieqs, stmts |-> c.stmts, istmts |-> c.istmts,
     extends |-> [i \in DOMAIN c.extends |-> [base |-> h[c.extends[i]].base, mods |-> h[c.extends[i]].mods, vis |-> h[c.extends[i]].vis]],
     imports |-> c.imports,
     classes |-> [i \in DOMAIN c.classes |-> Projected(h, c.classes[i])]]
(* the declared content with the unnamed leading section given the label lbl *)
RECURSIVE WithFirstAs(_, _)
WithFirstAs(p, lbl) == [p EXCEPT !.comps = [i \in DOMAIN @ |-> IF @[i].vis = "first" THEN [@[i] EXCEPT !.vis = lbl] ELSE @[i]],
                                 !.extends = [i \in DOMAIN @ |-> IF @[i].vis = "first" THEN [@[i] EXCEPT !.vis = lbl] ELSE @[i]],
                                 !.classes = [i \in DOMAIN @ |-> WithFirstAs(@[i], lbl)]]

RECURSIVE ClassIds(_, _)
ClassIds(h, cls) == {cls} \cup UNION {ClassIds(h, h[cls].classes[i]) : i \in DOMAIN h[cls].classes}
SymbolIds(h, top) == UNION {Range(h[c].symbols) : c \in ClassIds(h, top)}
TopClassOf(mm) == Last(mm.h[1].classes)
OrdersOf(h, cls) == [i \in DOMAIN h[cls].symbols |-> h[h[cls].symbols[i]].order]
StrictlyIncreasing(s) == \A i \in 1..(Len(s) - 1) : s[i] < s[i + 1]
(* pairs of symbols holding the very same type / prefixes / dimensions object, resp. a common dimension sub-list *)
SharedTop(mm) == LET S == SymbolIds(mm.h, TopClassOf(mm)) IN
    {p \in S \X S : p[1] < p[2] /\ (mm.h[p[1]].type = mm.h[p[2]].type \/ mm.h[p[1]].prefixes = mm.h[p[2]].prefixes
                                    \/ mm.h[p[1]].dims = mm.h[p[2]].dims)}
SharedSub(mm) == LET S == SymbolIds(mm.h, TopClassOf(mm)) IN
    {p \in S \X S : p[1] < p[2] /\ Range(mm.h[mm.h[p[1]].dims].v) \cap Range(mm.h[mm.h[p[2]].dims].v) # {}}
NamePairs(mm, P) == {<<mm.h[p[1]].name, mm.h[p[2]].name>> : p \in P}

Outcome(mm) ==      \* what the caller of parse() can observe
    IF mm.err # "" THEN [rejected |-> TRUE, why |-> mm.err]
    ELSE [rejected |-> FALSE, why |-> "",
          class |-> Projected(mm.h, TopClassOf(mm)),
          ordersIncrease |-> \A c \in ClassIds(mm.h, TopClassOf(mm)) : StrictlyIncreasing(OrdersOf(mm.h, c)),
          orders |-> OrdersOf(mm.h, TopClassOf(mm)),
          sharedTop |-> NamePairs(mm, SharedTop(mm)),
          sharedSub |-> NamePairs(mm, SharedSub(mm))]

-----------------------------------------------------------------------------
(* 6. Program families.                                                         *)
N(s, i) == s \o ToString(i)
PrefixChoices == << <<>>, <<"parameter">>, <<"flow">>, <<"input">>, <<"discrete">>, <<"parameter", "input">>, <<"constant", "output">>,
                    <<"flow", "parameter", "input">> >>
TypeChoices == << <<"Real">>, <<"Lib", "T">> >>
CDimChoices == << <<>>, <<"3">> >>
(* declarator options: [ddims, attrs, value, comment] *)
DOpt(dd, at, v, cm) == [dd |-> dd, at |-> at, v |-> v, cm |-> cm]
FirstDeclOpts == << DOpt(<<>>, <<>>, "", <<>>),
                    DOpt(<<"2">>, <<>>, "", <<>>),
                    DOpt(<<"2", "4">>, << <<"start", "1">> >>, "", <<"c1">>),
                    DOpt(<<>>, << <<"start", "1">>, <<"min", "k">> >>, "", <<>>),
                    DOpt(<<>>, <<>>, "5", <<"c1">>),
                    DOpt(<<>>, << <<"max", "7">> >>, "5", <<"c1", "c2">>),
                    DOpt(<<"n">>, <<>>, "", <<"c1", "c2", "c3">>),
                    DOpt(<<>>, << <<"nominal", "2">> >>, "", <<>>) >>
OtherDeclOpts == << DOpt(<<>>, <<>>, "", <<>>),
                    DOpt(<<"6">>, << <<"start", "3">> >>, "", <<"d">>),
                    DOpt(<<>>, <<>>, "8", <<>>) >>
MkDecl(name, o) == Decl(name, o.dd, o.at, o.v, o.cm)
ClausePrograms ==
    {Class("M", "", << ElemSec("first", << Clause(PrefixChoices[p], TypeChoices[t], CDimChoices[c], ds) >>) >>)
        : p \in DOMAIN PrefixChoices, t \in DOMAIN TypeChoices, c \in DOMAIN CDimChoices,
          ds \in  {<<MkDecl("a", FirstDeclOpts[i])>> : i \in DOMAIN FirstDeclOpts}
             \cup {<<MkDecl("a", FirstDeclOpts[i]), MkDecl("b", OtherDeclOpts[j])>> : i \in DOMAIN FirstDeclOpts, j \in DOMAIN OtherDeclOpts}
             \cup {<<MkDecl("a", FirstDeclOpts[i]), MkDecl("b", OtherDeclOpts[j]), MkDecl("c", OtherDeclOpts[k])>>
                      : i \in DOMAIN FirstDeclOpts, j \in DOMAIN OtherDeclOpts, k \in DOMAIN OtherDeclOpts}}
(* every type prefix the grammar allows: [flow|stream] [discrete|parameter|constant] [input|output] *)
AllPrefixes == {a \o b \o c : a \in {<<>>, <<"flow">>, <<"stream">>}, b \in {<<>>, <<"discrete">>, <<"parameter">>, <<"constant">>},
                              c \in {<<>>, <<"input">>, <<"output">>}}
PrefixPrograms ==
    {Class("M", "", << ElemSec(vis, << Clause(pf, <<"Real">>, cd, ds) >>) >>)
        : vis \in {"first"}, pf \in AllPrefixes, cd \in Range(CDimChoices),
          ds \in {<<MkDecl("a", FirstDeclOpts[1])>>, <<MkDecl("a", FirstDeclOpts[2]), MkDecl("b", OtherDeclOpts[2])>>,
                  <<MkDecl("a", FirstDeclOpts[5]), MkDecl("b", OtherDeclOpts[1]), MkDecl("c", OtherDeclOpts[3])>>}}
(* two clauses in one section and in different sections: objects must not be shared ACROSS clauses either *)
TwoClausePrograms ==
    {Class("M", "two clauses", << ElemSec("first", << Clause(PrefixChoices[p], <<"Real">>, CDimChoices[c], <<MkDecl("a", FirstDeclOpts[i]), MkDecl("b", OtherDeclOpts[1])>>),
                                                      Clause(PrefixChoices[q], <<"Integer">>, <<>>, <<MkDecl("u", OtherDeclOpts[j]), MkDecl("v", OtherDeclOpts[1])>>) >>) >>)
        : p \in {1, 2, 6}, q \in {1, 3}, c \in DOMAIN CDimChoices, i \in {1, 2, 4}, j \in DOMAIN OtherDeclOpts}

(* section interleavings: a leading unnamed list (empty or one clause) followed by up to MaxSections sections *)
SecKinds == <<"public", "protected", "eq", "ieq", "alg", "ialg">>
MkSection(kind, i) ==
    CASE kind \in {"public", "protected"} -> ElemSec(kind, << Clause(<<>>, <<"Real">>, <<>>, <<Decl(N("x", i), <<>>, <<>>, "", <<>>), Decl(N("y", i), <<>>, <<>>, "", <<>>)>>) >>)
      [] kind = "eq"   -> EqSec(FALSE, <<10 * i + 1, 10 * i + 2>>)
      [] kind = "ieq"  -> EqSec(TRUE, <<10 * i + 1, 10 * i + 2>>)
      [] kind = "alg"  -> AlgSec(FALSE, <<10 * i + 1, 10 * i + 2>>)
      [] kind = "ialg" -> AlgSec(TRUE, <<10 * i + 1, 10 * i + 2>>)
RECURSIVE KindSeqs(_)
KindSeqs(n) == IF n = 0 THEN {<<>>} ELSE KindSeqs(n - 1) \cup {Append(s, k) : s \in {q \in KindSeqs(n - 1) : Len(q) = n - 1}, k \in Range(SecKinds)}
SectionPrograms ==
    {Class("M", "", << ElemSec("first", lead) >> \o [i \in DOMAIN ks |-> MkSection(ks[i], i)])
        : lead \in {<<>>, << Clause(<<>>, <<"Real">>, <<>>, <<Decl("z", <<>>, <<>>, "", <<>>)>>) >>}, ks \in KindSeqs(MaxSections)}

(* structure: nested classes, extends, imports in any of the three kinds of element section *)
Inner(name, cn) == Class(name, "inner", << ElemSec("first", << Clause(<<"parameter">>, <<"Real">>, <<>>, <<Decl(cn, <<>>, <<>>, "2", <<>>), Decl("w", <<"2">>, <<>>, "", <<>>)>>) >>),
                                            EqSec(FALSE, <<91>>), ElemSec("public", << Clause(<<>>, <<"Real">>, <<>>, <<Decl("t", <<>>, <<>>, "", <<>>)>>) >>), EqSec(TRUE, <<92>>) >>)
StructElems == << Clause(<<>>, <<"Real">>, <<>>, <<Decl("a", <<>>, <<>>, "", <<>>), Decl("b", <<>>, <<>>, "", <<>>)>>),
                  ExtendsEl(<<"Base">>, <<>>),
                  ExtendsEl(<<"Lib", "Base2">>, << <<"p", "2">>, <<"q", "3">> >>),
                  ImportEl("qual", <<"A", "B">>, <<>>),
                  ImportEl("renamed", <<"A", "C">>, <<"R">>),
                  ImportEl("star", <<"P", "Q">>, <<>>),
                  ImportEl("star", <<"P2">>, <<>>),
                  ImportEl("list", <<"L">>, <<"n1", "n2">>),
                  ImportEl("list", <<"L", "K">>, <<"m1", "m2", "m3">>),
                  NestedEl(Inner("In1", "a")),
                  NestedEl(Inner("In2", "g")),
                  Clause(<<"flow">>, <<"Real">>, <<>>, <<Decl("f", <<>>, <<>>, "", <<>>), Decl("g", <<>>, <<>>, "", <<>>)>>),
                  ShortEl("T1", <<"Real">>, <<>>),
                  ShortEl("T2", <<"Lib", "U">>, << <<"min", "0">>, <<"max", "9">> >>),
                  \* two levels of nesting: Deep is declared by Mid, not by the outermost class
                  NestedEl(Class("Mid", "", << ElemSec("first", << Clause(<<>>, <<"Real">>, <<>>, <<Decl("m", <<>>, <<>>, "", <<>>)>>),
                                                                   NestedEl(Inner("Deep", "d")), ShortEl("T3", <<"Integer">>, <<>>) >>),
                                              ElemSec("protected", << Clause(<<>>, <<"Real">>, <<>>, <<Decl("n", <<>>, <<>>, "", <<>>)>>) >>),
                                              EqSec(FALSE, <<93>>) >>)) >>
StructPrograms ==
    {Class("M", "doc", (IF vis = "first" THEN << ElemSec("first", es) >> ELSE << ElemSec("first", <<>>), ElemSec(vis, es) >>) \o << EqSec(FALSE, <<1>>) >>)
        : vis \in {"first", "public", "protected"},
          es \in {<<StructElems[i]>> : i \in DOMAIN StructElems}
             \cup {<<StructElems[q[1]], StructElems[q[2]]>> : q \in {r \in (DOMAIN StructElems) \X (DOMAIN StructElems) : r[1] # r[2]}}
             \cup {<<StructElems[3], StructElems[q[1]], StructElems[q[2]]>> : q \in {r \in {1, 10, 12} \X {1, 10, 12} : r[1] # r[2]}}}

StructWidePrograms ==
    {Class("M", "", << ElemSec("first", <<StructElems[q[1]]>>), ElemSec(vis, <<StructElems[q[2]], StructElems[q[3]]>>), AlgSec(FALSE, <<7>>) >>)
        : vis \in {"public", "protected"},
          q \in {r \in (DOMAIN StructElems) \X (DOMAIN StructElems) \X (DOMAIN StructElems) : r[1] # r[2] /\ r[1] # r[3] /\ r[2] # r[3]}}

(* string comments with escaped quotes.  In comment texts of this module the character ~ stands for an ESCAPED double
   quote (written backslash-quote in the class text): quotes at the start / end of a comment, comments that are nothing
   but quotes, empty comments, and all of these inside concatenations, on components, on the class and on a nested class *)
CommentChoices == << <<"~bar~">>, <<"unit is called ~bar~">>, <<"~">>, <<"~~">>, <<"">>, <<"ends ~">>, <<"~ starts">>, <<"mid~dle">>,
                     <<"a~", "b">>, <<"a", "~b~", "c~">>, <<"", "x">>, <<"~", "~">>, <<"x", "">>, <<"plain">> >>
ClassCommentChoices == <<"", "doc", "~quoted~", "ends ~", "~">>
CommentPrograms ==
    {Class("M", ClassCommentChoices[cc],
           << ElemSec("first", << Clause(<<>>, <<"Real">>, <<>>, <<Decl("a", <<>>, <<>>, "1", CommentChoices[i]), Decl("b", <<>>, <<>>, "", CommentChoices[j])>>),
                                  NestedEl(Class("In", ClassCommentChoices[nc],
                                                 << ElemSec("first", << Clause(<<>>, <<"Real">>, <<>>, <<Decl("c", <<>>, <<>>, "", CommentChoices[i])>>) >>) >>)) >>),
              ElemSec("public", << Clause(<<"parameter">>, <<"Real">>, <<>>, <<Decl("d", <<>>, <<>>, "1", CommentChoices[j])>>) >>) >>)
        : i \in DOMAIN CommentChoices, j \in {1, 3, 5, 9, 14}, cc \in DOMAIN ClassCommentChoices, nc \in {1, 3, 4}}

(* duplicates and near-duplicates *)
D1(n) == Decl(n, <<>>, <<>>, "", <<>>)
RC(ds) == Clause(<<>>, <<"Real">>, <<>>, ds)
DupPrograms ==
    { Class("M", "dup in one clause", << ElemSec("first", << RC(<<D1("a"), D1("a")>>) >>) >>),
      Class("M", "dup in one clause, third", << ElemSec("first", << RC(<<D1("a"), D1("b"), D1("a")>>) >>) >>),
      Class("M", "dup in two clauses", << ElemSec("first", << RC(<<D1("a")>>), RC(<<D1("b"), D1("a")>>) >>) >>),
      Class("M", "dup across sections", << ElemSec("first", << RC(<<D1("a")>>) >>), ElemSec("protected", << RC(<<D1("a")>>) >>) >>),
      Class("M", "dup public public", << ElemSec("first", <<>>), ElemSec("public", << RC(<<D1("a")>>) >>), EqSec(FALSE, <<1>>), ElemSec("public", << RC(<<D1("b"), D1("a")>>) >>) >>),
      Class("M", "dup with different type", << ElemSec("first", << RC(<<D1("a")>>), Clause(<<"parameter">>, <<"Integer">>, <<>>, <<D1("a")>>) >>) >>),
      Class("M", "dup inside nested", << ElemSec("first", << RC(<<D1("a")>>), NestedEl(Class("In", "", << ElemSec("first", << RC(<<D1("b"), D1("b")>>) >>) >>)) >>) >>),
      Class("M", "same name in outer and nested: no dup", << ElemSec("first", << RC(<<D1("a")>>), NestedEl(Class("In", "", << ElemSec("first", << RC(<<D1("a")>>) >>) >>)) >>) >>),
      Class("M", "same name in two nested: no dup", << ElemSec("first", << NestedEl(Class("In", "", << ElemSec("first", << RC(<<D1("a")>>) >>) >>)),
                                                                           NestedEl(Class("Jn", "", << ElemSec("first", << RC(<<D1("a")>>) >>) >>)) >>) >>),
      Class("M", "case differs: no dup", << ElemSec("first", << RC(<<D1("a"), D1("A")>>) >>) >>) }

Programs == (IF "clause" \in Families THEN {[family |-> "clause", c |-> c] : c \in ClausePrograms \cup TwoClausePrograms} ELSE {})
       \cup (IF "prefixes" \in Families THEN {[family |-> "prefixes", c |-> c] : c \in PrefixPrograms} ELSE {})
       \cup (IF "sections" \in Families THEN {[family |-> "sections", c |-> c] : c \in SectionPrograms} ELSE {})
       \cup (IF "struct" \in Families THEN {[family |-> "struct", c |-> c] : c \in StructPrograms} ELSE {})
       \cup (IF "structwide" \in Families THEN {[family |-> "structwide", c |-> c] : c \in StructWidePrograms} ELSE {})
       \cup (IF "comments" \in Families THEN {[family |-> "comments", c |-> c] : c \in CommentPrograms} ELSE {})
       \cup (IF "dup" \in Families THEN {[family |-> "dup", c |-> c] : c \in DupPrograms} ELSE {})

(* shape tags: the features of a class text that known deviations depend on *)
RECURSIVE AllClauses(_), AllImports(_)
AllClauses(c) == Flatten([i \in DOMAIN ClausesOf(c) |-> LET el == ClausesOf(c)[i].el IN
                    IF el.k = "clause" THEN <<el>> ELSE IF el.k = "class" THEN AllClauses(el.c) ELSE <<>>])
AllImports(c) == Flatten([i \in DOMAIN ClausesOf(c) |-> LET el == ClausesOf(c)[i].el IN
                    IF el.k = "import" THEN <<el>> ELSE IF el.k = "class" THEN AllImports(el.c) ELSE <<>>])
CountVis(c, v) == Cardinality({i \in DOMAIN c.sections : c.sections[i].k = "elems" /\ c.sections[i].vis = v})
Tags(p) ==
    LET cl == AllClauses(p.c) IN
    {"family:" \o p.family}
    \cup (IF \E i \in DOMAIN cl : Len(cl[i].prefixes) >= 2 THEN {"multi-keyword-prefix"} ELSE {})
    \cup (IF \E i \in DOMAIN cl : cl[i].cdims # <<>> /\ \E j \in DOMAIN cl[i].decls : cl[i].decls[j].ddims # <<>> THEN {"clause-and-declarator-dims"} ELSE {})
    \cup (IF \E i \in DOMAIN cl : cl[i].cdims # <<>> THEN {"clause-dims"} ELSE {})
    \cup (IF \E i \in DOMAIN cl : Len(cl[i].decls) >= 2 THEN {"multi-declarator"} ELSE {})
    \cup (IF \E i \in DOMAIN cl : \E j \in DOMAIN cl[i].decls : Len(cl[i].decls[j].comment) >= 2 THEN {"comment-concatenation"} ELSE {})
    \cup (IF CountVis(p.c, "public") >= 2 THEN {"repeated-public"} ELSE {})
    \cup (IF CountVis(p.c, "protected") >= 2 THEN {"repeated-protected"} ELSE {})
    \cup (IF \E i \in DOMAIN AllImports(p.c) : AllImports(p.c)[i].form = "list" /\ Len(AllImports(p.c)[i].names) >= 3 THEN {"import-list-3"} ELSE {})
    \cup (IF HasDuplicate(p.c) THEN {"duplicate"} ELSE {})

-----------------------------------------------------------------------------
(* 7. Behaviour: one callback per step.                                         *)
Init == /\ prog \in Programs
        /\ evs = Events(prog.c)
        /\ pc = 1
        /\ m = InitM
        /\ last = "init"
        /\ hist = <<>>
Snapshot(name, mm) == [e |-> name, symcount |-> mm.symcount, depth |-> Len(mm.stk), inext |-> mm.inext, sym |-> mm.symnode # 0,
                       err |-> mm.err # ""]
Cb(name) == /\ pc <= Len(evs) /\ evs[pc].e = name
            /\ m' = Handle(m, evs[pc], Switches)
            /\ pc' = pc + 1 /\ last' = name
            /\ hist' = Append(hist, Snapshot(name, m'))
            /\ UNCHANGED <<prog, evs>>
EnterClassDefinition      == Cb("EnterClassDefinition")
EnterElementList          == Cb("EnterElementList")
ExitElementList           == Cb("ExitElementList")
EnterComponentClause      == Cb("EnterComponentClause")
EnterComponentDeclaration == Cb("EnterComponentDeclaration")
EnterDeclaration          == Cb("EnterDeclaration")
EnterElementModification  == Cb("EnterElementModification")
ExitDeclaration           == Cb("ExitDeclaration")
ExitComponentDeclaration  == Cb("ExitComponentDeclaration")
ExitComponentClause       == Cb("ExitComponentClause")
EnterExtendsClause        == Cb("EnterExtendsClause")
ExitExtendsClause         == Cb("ExitExtendsClause")
ExitImportClause          == Cb("ExitImportClause")
ExitEquationSection       == Cb("ExitEquationSection")
ExitAlgorithmSection      == Cb("ExitAlgorithmSection")
ExitComposition           == Cb("ExitComposition")
ExitClassSpec             == Cb("ExitClassSpec")
ExitClassSpecBase         == Cb("ExitClassSpecBase")
ExitClassDefinition       == Cb("ExitClassDefinition")
Finish == /\ pc = Len(evs) + 1 /\ pc' = pc + 1 /\ last' = "Finish" /\ UNCHANGED <<prog, evs, m, hist>>
Next == \/ EnterClassDefinition \/ EnterElementList \/ ExitElementList \/ EnterComponentClause
        \/ EnterComponentDeclaration \/ EnterDeclaration \/ EnterElementModification \/ ExitDeclaration
        \/ ExitComponentDeclaration \/ ExitComponentClause \/ EnterExtendsClause \/ ExitExtendsClause
        \/ ExitImportClause \/ ExitEquationSection \/ ExitAlgorithmSection \/ ExitComposition
        \/ ExitClassSpec \/ ExitClassSpecBase \/ ExitClassDefinition \/ Finish
Spec == Init /\ [][Next]_vars

-----------------------------------------------------------------------------
(* 8. What TLC checks.                                                          *)
AtEnd == pc > Len(evs)
Expected(c) == IF HasDuplicate(c) THEN [rejected |-> TRUE] ELSE [rejected |-> FALSE, class |-> Declared(c)]
(* the walk builds exactly the declared content (the leading section is what the listener labels "private") *)
OperationalIsDeclarative ==
    AtEnd => IF HasDuplicate(prog.c) THEN m.err = "already defined"
             ELSE m.err = "" /\ Projected(m.h, TopClassOf(m)) = WithFirstAs(Declared(prog.c), "private")
NoSharedObjects == (AtEnd /\ m.err = "") => SharedTop(m) = {}
NoSharedSubLists == (AtEnd /\ m.err = "") => SharedSub(m) = {}
OrdersIncrease == (AtEnd /\ m.err = "") => \A c \in ClassIds(m.h, TopClassOf(m)) : StrictlyIncreasing(OrdersOf(m.h, c))
(* along the walk *)
HeapWellFormed ==
    /\ m.stk # <<>> /\ \A i \in DOMAIN m.stk : m.stk[i] \in DOMAIN m.h /\ m.h[m.stk[i]].o = "class"
    /\ m.symnode # 0 => m.h[m.symnode].o = "symbol"
    /\ m.clause # 0 => m.h[m.clause].o = "clause"
    /\ \A i \in DOMAIN m.h : m.h[i].o = "symbol" /\ m.h[i].name # "" =>
          /\ m.h[m.h[i].type].o = "tref" /\ m.h[m.h[i].prefixes].o = "plist" /\ m.h[m.h[i].dims].o = "dims"
          /\ \A k \in DOMAIN m.h[m.h[i].dims].v : m.h[m.h[m.h[i].dims].v[k]].o = "sub"
    /\ (AtEnd /\ m.err = "") => (Len(m.stk) = 1 /\ m.open = <<>> /\ ~m.inext)
(* every symbol a class lists is registered under a name that no other symbol of that class has *)
NamesUnique == \A c \in DOMAIN m.h : m.h[c].o = "class" =>
                  \A i, j \in DOMAIN m.h[c].symbols : i # j => m.h[m.h[c].symbols[i]].name # m.h[m.h[c].symbols[j]].name
CounterMonotone == [][m'.symcount >= m.symcount /\ Len(m'.h) >= Len(m.h)]_vars
(* a type object is only ever filled once, when its clause is left: later callbacks never change a filled type *)
TypesStable == [][\A i \in DOMAIN m.h : (m.h[i].o = "tref" /\ m.h[i].v # <<>>) => m'.h[i] = m.h[i]]_vars

-----------------------------------------------------------------------------
(* 9. Output for the harness.                                                   *)
View == <<prog, pc, m>>
Emit ==
    IF last' = "Finish"
    THEN PrintT(<<"PROG", ToJson([family |-> prog.family, class |-> prog.c, tags |-> Tags(prog), nevents |-> Len(evs),
                                  callbacks |-> [n \in {evs[i].e : i \in DOMAIN evs} |-> Cardinality({i \in DOMAIN evs : evs[i].e = n})],
                                  trace |-> hist,
                                  expect |-> Expected(prog.c),
                                  model |-> Outcome(m),
                                  asbuilt |-> Outcome(RunAll(prog.c, AsBuilt))])>>)
    ELSE TRUE
=============================================================================
