\* C10 thorough: + every kind paired with every core kind
CONSTANTS Pairs = "wide" GluedPrefixes = FALSE
INIT Init
NEXT Next
VIEW View
CHECK_DEADLOCK FALSE
PROPERTY PhaseOrder
INVARIANT ChainComputesCat
INVARIANT ExactlyOnce
INVARIANT DerBijection
INVARIANT OutputsRight
INVARIANT OrderKept
