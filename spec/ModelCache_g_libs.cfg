\* graph: two library folders, option sets differing only in library_folders
CONSTANTS K = 2
          Editable = {"L1","L2"}
          Addable = {}
          OptNames = {"O1","O4"}
          Modes = {"cache"}
          Versions = {1}
          Holds = {FALSE}
          MaxClock = 1000000
          LibFoldersInKey = TRUE
          Beyond = {}
          OptionValuesCompared = TRUE
          FreshLibHandles = TRUE
INIT Init
NEXT Next
VIEW View
ACTION_CONSTRAINT Log
CHECK_DEADLOCK FALSE
