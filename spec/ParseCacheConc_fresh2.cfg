\* intended (BEGIN IMMEDIATE in the structure check), 2 processes, fresh database, same text
CONSTANTS Procs = {1,2} SameText = TRUE InitModels = "absent" InitMeta = "absent" InitRows = {}
  TouchOnHit = TRUE SharedInited = FALSE LockedCountsAsCorrupt = FALSE AllowTimeout = FALSE DeferredSchemaTxn = FALSE
INIT Init
NEXT Next
VIEW View
ACTION_CONSTRAINT Log
INVARIANT NoDbError
INVARIANT AtMostOneWriter
INVARIANT DbIntactAtEnd
