"""Deterministic schedule replay for threads that talk to sqlite through pymoca.parser.

A proxy object is installed as `pymoca.parser.sqlite3` (and `.os` for os.remove).  Every
connect / execute / commit / close of a registered worker thread first parks at a gate; the
controller releases exactly one thread per schedule step and waits until that thread reaches
its next gate, finishes, or is still inside the sqlite call after a grace period - then it is
sitting in SQLite's busy handler ("waiting") and will complete by itself once the lock holder
moves on.  Nothing here decides a verdict: it only fixes the interleaving.
"""
import gc
import sqlite3 as real_sqlite3
import threading
import time

BUSY_TIMEOUT = 20.0    # seconds a real call waits for a lock before "database is locked"
GRACE = 0.05           # seconds after which a released call that is expected to block counts as waiting
PATIENCE = 1.5         # seconds we wait for a call that the lock model expects to complete (< BUSY_TIMEOUT)


def label_of(sql):
    s = " ".join(sql.split()).upper()
    for k, v in (("PRAGMA INTEGRITY_CHECK", "integrity"), ("BEGIN IMMEDIATE", "begin-immediate"), ("BEGIN", "begin"),
                 ("SELECT NAME FROM SQLITE_MASTER", "select-master"), ("PRAGMA TABLE_INFO", "table-info"),
                 ("DROP TABLE", "drop"), ("CREATE TABLE", "create"), ("INSERT OR IGNORE INTO METADATA", "insert-metadata"),
                 ("DELETE FROM MODELS", "prune-delete"), ("UPDATE METADATA", "prune-update"),
                 ("SELECT LAST_HIT", "lookup"), ("UPDATE MODELS", "touch"), ("INSERT OR REPLACE INTO MODELS", "store")):
        if s.startswith(k):
            return v
    return "sql:" + s[:24]


class Controller:
    def __init__(self):
        self.cv = threading.Condition()
        self.at_gate = {}      # tid -> label of the op it is about to perform
        self.permits = set()
        self.done = {}         # tid -> ("ok", value) | ("exc", exception)
        self.oplog = {}        # tid -> [(label, outcome)]
        self.workers = {}      # thread ident -> tid
        self.free_run = False
        self.open_conns = set()    # tids that have an open connection
        self.removed_in_use = []   # [(tid that removed the file, sorted tids with an open connection)]
        self.timeouts = {}         # tid -> busy timeout for its connections (default BUSY_TIMEOUT)

    # ---- worker side ---------------------------------------------------------
    def tid(self):
        return self.workers.get(threading.get_ident())

    def gate(self, label):
        t = self.tid()
        if t is None:
            return
        with self.cv:
            self.at_gate[t] = label
            self.cv.notify_all()
            while t not in self.permits and not self.free_run:
                self.cv.wait()
            self.permits.discard(t)
            del self.at_gate[t]
            self.oplog.setdefault(t, []).append([label, "started"])
            self.cv.notify_all()

    def op_finished(self, outcome):
        t = self.tid()
        if t is None:
            return
        with self.cv:
            self.oplog[t][-1][1] = outcome

    def spawn(self, tid, fn):
        def body():
            self.workers[threading.get_ident()] = tid
            try:
                r = ("ok", fn())
            except BaseException as e:  # noqa - reported as observation
                # drop the traceback: it keeps parse()'s frame and with it the leaked connection (and its
                # locks) alive; a real caller that handles the exception releases them the same way
                e.__traceback__ = None
                r = ("exc", e)
                del e
                gc.collect()
            with self.cv:
                self.done[tid] = r
                self.open_conns.discard(tid)
                self.cv.notify_all()
        th = threading.Thread(target=body, daemon=True)
        th.start()
        return th

    # ---- controller side ----------------------------------------------------
    def wait_parked(self, tids, timeout=10.0):
        """wait until each of tids is at a gate or done"""
        end = time.time() + timeout
        with self.cv:
            while any(t not in self.at_gate and t not in self.done for t in tids):
                left = end - time.time()
                if left <= 0:
                    return False
                self.cv.wait(left)
        return True

    def status(self, t):
        with self.cv:
            if t in self.done:
                return "done"
            if t in self.at_gate:
                return "at_gate"
            return "in_op"

    def step(self, t, grace=GRACE, expect_block=False):
        """let thread t perform one gated op.  Returns (label, outcome) with outcome in
        ok / waiting / finished / skipped.  The caller says whether the lock model expects the call
        to block: then a short grace suffices to see that it does; otherwise we are patient (a loaded
        machine may take long for a call that does not block at all)."""
        if not expect_block:
            grace = max(grace, PATIENCE)
        with self.cv:
            if t in self.done:
                return (None, "skipped-done")
            if t not in self.at_gate:
                # still inside an earlier call (busy handler): give it a chance to complete now
                end = time.time() + grace
                while t not in self.at_gate and t not in self.done:
                    left = end - time.time()
                    if left <= 0:
                        return (None, "still-waiting")
                    self.cv.wait(left)
                return (None, "completed-earlier-op")
            label = self.at_gate[t]
            n_before = len(self.oplog.get(t, []))
            self.permits.add(t)
            self.cv.notify_all()
            end = time.time() + grace
            while True:
                started = len(self.oplog.get(t, [])) > n_before
                if started and (t in self.at_gate or t in self.done):
                    return (label, "ok" if t not in self.done else "finished")
                left = end - time.time()
                if left <= 0:
                    return (label, "waiting")
                self.cv.wait(left)

    def run_free(self, timeout=30.0):
        """release everybody and wait for completion"""
        with self.cv:
            self.free_run = True
            self.cv.notify_all()
            end = time.time() + timeout
            while len(self.done) < len(set(self.workers.values())):
                left = end - time.time()
                if left <= 0:
                    return False
                self.cv.wait(left)
        return True


class _Cursor:
    def __init__(self, ctl, cur):
        self._ctl, self._cur = ctl, cur

    def execute(self, sql, *a):
        self._ctl.gate(label_of(sql))
        try:
            r = self._cur.execute(sql, *a)
            self._ctl.op_finished("ok")
            return r
        except BaseException as e:
            self._ctl.op_finished("raised:" + type(e).__name__ + ":" + str(e)[:60])
            raise

    def __getattr__(self, k):
        return getattr(self._cur, k)


class _Conn:
    def __init__(self, ctl, conn):
        self._ctl, self._conn = ctl, conn

    def cursor(self):
        return _Cursor(self._ctl, self._conn.cursor())

    def _gated(self, label, fn):
        self._ctl.gate(label)
        try:
            r = fn()
            self._ctl.op_finished("ok")
            return r
        except BaseException as e:
            self._ctl.op_finished("raised:" + type(e).__name__ + ":" + str(e)[:60])
            raise

    def commit(self):
        return self._gated("commit", self._conn.commit)

    def close(self):
        def do():
            self._conn.close()
            self._ctl.open_conns.discard(self._ctl.tid())
        return self._gated("close", do)

    def execute(self, sql, *a):
        return self._gated(label_of(sql), lambda: self._conn.execute(sql, *a))

    def __getattr__(self, k):
        return getattr(self._conn, k)


class SqliteProxy:
    """stands in for the sqlite3 module inside pymoca.parser"""

    def __init__(self, ctl, timeout=BUSY_TIMEOUT):
        self._ctl = ctl
        self._timeout = timeout

    def connect(self, path, *a, **kw):
        if self._ctl.tid() is None:
            return real_sqlite3.connect(path, *a, **kw)
        kw.setdefault("timeout", self._ctl.timeouts.get(self._ctl.tid(), self._timeout))
        self._ctl.gate("connect")
        try:
            c = real_sqlite3.connect(path, *a, **kw)
            self._ctl.open_conns.add(self._ctl.tid())
            self._ctl.op_finished("ok")
        except BaseException as e:
            self._ctl.op_finished("raised:" + type(e).__name__)
            raise
        return _Conn(self._ctl, c)

    def __getattr__(self, k):
        return getattr(real_sqlite3, k)


class OsProxy:
    def __init__(self, ctl, real_os):
        self._ctl, self._os = ctl, real_os

    def remove(self, p):
        self._ctl.gate("os.remove")
        try:
            others = sorted(self._ctl.open_conns - {self._ctl.tid()})
            if others:
                self._ctl.removed_in_use.append((self._ctl.tid(), others))
            r = self._os.remove(p)
            self._ctl.op_finished("ok")
            return r
        except BaseException as e:
            self._ctl.op_finished("raised:" + type(e).__name__)
            raise

    def __getattr__(self, k):
        return getattr(self._os, k)
