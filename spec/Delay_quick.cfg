\* intended switches, quick family: TLC must pass; PROG lines feed the replay
CONSTANTS LoopDelayOwnFreeVars = TRUE LoopDurationMapped = TRUE ParamValuesReachDelays = TRUE
          Family = "quick"
INIT Init
NEXT Next
VIEW View
ACTION_CONSTRAINT Log
INVARIANT TypeOK
INVARIANT RejectsExactly
INVARIANT ArgumentsPreserved
INVARIANT NoPlaceholderLeft
CHECK_DEADLOCK FALSE
