"""C14 - Simplification preserves the DAE's solutions.

Spec: spec/Simplify.tla (oracle mode) + spec/SimplifyTrace.tla (recorded traces) + spec/AliasRelation.tla.
  * TLC derives every model FROM a chosen integer solution (blueprint knobs -> alias chains with signs,
    constant assignments, parameter/constant value expressions, eliminable-variable equations, triangular /
    dense nonsingular integer cores, initial equations), admits only blueprints whose integer Jacobian is
    nonsingular (exact Bareiss), runs the option-guarded passes of _simplify_once as actions and checks
    SolutionPreserved / RecordedEliminationsHold / SelfContained / MetadataMerged and the action property
    Balance for every (blueprint, option set) pair that is replayed, for all 512 subsets of the nine
    rewriting options on a slice (thorough), and for iterative simplification at directed option sets.
  * The as-built variant of the spec (switches ConstValuesResolved, OldAliasSignStripped = FALSE) is
    expected to violate the properties; each of its counterexamples is replayed on the real code.
Binding C: each program is rendered, generate()d and simplify(options)ed; observables of the property on
  the REAL model: dae / initial residual at the projected solution = 0, exact full column rank of the
  integer Jacobian wrt der_states+alg_states, every (alias, sign) of alias_relation and every recorded
  constant / parameter value true in the solution.  An exception or an 'exceeded maximum iteration limit'
  warning is a reported failure (tallied); reduce_affine_expression on a non-affine model is tallied.
Binding B: the per-pass trace recorded through model._VERIF_HOOK and a wrapper of AliasRelation.add is
  validated by SimplifyTrace.tla (alias additions through AliasRelation!AddTo).
"""
from vf import simplify_run

META = {
    "ready": True,
    "category": "model_checking",
    "technique": "TLA+ spec (Simplify.tla) of the simplification pipeline, model-checked by TLC on models built from a known integer solution; every (model, option set) replayed on the real generate()+simplify(); recorded per-pass traces validated by SimplifyTrace.tla / AliasRelation.tla",
    "text": "TLC checks on the specification that every pass of _simplify_once keeps the constructed solution a solution, keeps the integer Jacobian nonsingular (exact Bareiss) and records only true alias signs / constant values, for every replayed (blueprint, option set) pair, for all 512 subsets of the nine rewriting options on a slice of the family, and for iterative simplification; the same programs are run through the real code and the residual at the projected solution, the exact rank of the Jacobian and every recorded alias sign and constant value are compared with what the property requires; counterexamples of the as-built spec variant are replayed as directed scenarios.",
    "note": "Trusted: TLC, the IR pretty-printer, casadi evaluation of the residual function at integer points, exact rank computation. Solution-set equality is decided for the constructed uniquely solvable (affine / triangular) families only. Which variable is eliminated is not prescribed. Exceptions and iteration-limit warnings are 'reported failure'. Scalar models only (vector expansion is C18).",
    "design_ref": "DESIGN.md section 6, C14/C15; Appendix C.6",
}


def run(ctx):
    return simplify_run.run(ctx, "C14")


def replay(ctx, scenario):
    return simplify_run.replay(ctx, scenario, "C14")
