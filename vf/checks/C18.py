"""C18 - Vector expansion is a faithful renaming to scalars.

Spec: spec/VectorExpand.tla (EXTENDS Eval.tla).  Declarative: scalar names a[i].b.c[j,k] in Modelica order,
attribute element that belongs to an index tuple, outputs; operational: the steps of Model._expand_vectors
(name split / format, np.ndindex, attribute picking per representation, reshape(vertcat(..), reversed(shape)).T);
TLC checks NoRaise, NamesAgree, AttrsAgree, RenamingFaithful per program and prints the expected expanded lists.
Binding C: generate() without and with expand_vectors (+ simplify): names / order / attribute elements / outputs from
the spec; dae and initial residual of the expanded model at the renamed point must equal the unexpanded residual
row by row; delay states must be expanded inputs and the delay arguments must be the elements of the unexpanded ones.
"""
import re

from vf import evalrun, ir_eval
from vf.core import MachineryError, exc_record
from vf.par import pmap
from vf.checks.C13 import dec

META = {
    "ready": True,
    "category": "model_checking",
    "technique": "TLA+ spec (VectorExpand.tla): declarative naming / element order / attribute-element correspondence vs. an operational model of Model._expand_vectors, model-checked by TLC over a bounded family; expected expanded lists replayed against generate(expand_vectors) and the expanded residual compared with the unexpanded one under the spec's renaming (oracle mode + differential)",
    "text": "TLC enumerates one array (1-D sizes 2,3; 2-D 2x2, 2x3, 3x2 in thorough) as algebraic / state / input / parameter / output variable with attribute patterns (none, each, array and matrix literals, parameter-dependent each / array expressions, lists of parameter expressions), arrays inside scalar and array component instances, Integer / Boolean arrays, several outputs, delay() of arrays; for each it checks that the modelled expansion produces the Modelica names in row-major order with the attribute element that belongs to each index and that the substituted matrix puts every scalar at the position of its own subscripts. The real expanded model must show exactly those names, order, attribute values (at 4 parameter points), outputs; its residuals at the renamed points must equal the unexpanded residuals; delay states / arguments must be renamed alike.",
    "note": "Trusted: TLC, vf/ir_eval.py. Residual equality is differential (expanded vs. unexpanded real model at TLC's points), names / order / attributes are absolute (from the spec). Names of expanded delay states are accepted as base[i] or base[i,1]. Not covered: 3-D arrays (_MTensor), arrays of components holding arrays with parameter-dependent array attributes (the component's own parameters are not instantiated per element), expand_vectors together with expand_mx.",
    "design_ref": "DESIGN.md section 6, C18",
}

GROUPS = ("states", "der_states", "alg_states", "inputs", "parameters", "constants")
DELAY = re.compile(r"^(_pymoca_delay_\d+)\[(\d+)(?:,(\d+))?\]$")


def delay_shapes(m0):
    """base name -> (rows, cols) of the delay input symbols of the UNEXPANDED model"""
    out = {}
    for name in m0.delay_states:
        v = next(x for x in m0.inputs if x.symbol.name() == name)
        out[name] = (v.symbol.size1(), v.symbol.size2())
    return out


def _delay_value(base, pos):
    """value fed to element number pos (0-based, column-major) of delay input `base`"""
    num = int(base.rsplit("_", 1)[1])
    return [16 * num + pos + 1, 4]


def _delay_env(model, env, shapes, expanded):
    """give every delay input a value; element (i, j) of a delay symbol gets the same value before and after expansion"""
    e = dict(env)
    if not expanded:
        for name, (r, c) in shapes.items():
            n = r * c
            e[name] = {"sh": [n] if n > 1 else [], "d": [_delay_value(name, k) for k in range(n)]}      # 1-D list = column-major as is
        return e
    for v in model.inputs:
        m = DELAY.match(v.symbol.name())
        if m and m.group(1) in shapes:
            r, c = shapes[m.group(1)]
            i, j = int(m.group(2)), int(m.group(3) or 1)
            e[v.symbol.name()] = {"sh": [], "d": [_delay_value(m.group(1), (j - 1) * r + (i - 1))]}
    return e


def eval_in_env(x, env1):
    """value of a Variable attribute (number, nested list, DM, or MX over ANY model symbols) -> list of floats, column-major"""
    pm = ir_eval.pymoca()
    ca, np = pm["ca"], pm["np"]
    if isinstance(x, ca.MX):
        syms = ca.symvar(x)
        vals = []
        for s_ in syms:
            if s_.name() not in env1 or s_.numel() != 1:
                raise KeyError("refers to %s, which is not a scalar variable of the expanded model" % s_.name())
            vals.append(ir_eval.colmajor(env1[s_.name()])[0])
        f = ca.Function("a", syms, [x])
        out = f.call([ca.DM(v) for v in vals])[0]
        return [float(v) for v in np.array(out).reshape(-1, order="F")]
    if isinstance(x, (list, tuple)):
        rows = [eval_in_env(e, env1) for e in x]
        if rows and all(len(r) == 1 for r in rows):
            return [r[0] for r in rows]
        return [rows[i][j] for j in range(len(rows[0])) for i in range(len(rows))]
    if isinstance(x, (ca.DM, np.ndarray)):
        return [float(v) for v in np.array(x).reshape(-1, order="F")]
    return [float(x)]


def renamed_env(item, env):
    e1 = {"time": env["time"]}
    for nm in item["namemap"]:
        flat = nm["flat"]
        if flat in env:
            for k, s in enumerate(nm["scalars"]):
                e1[s] = {"sh": [], "d": [env[flat]["d"][k]]}
        d = "der(%s)" % flat
        if d in env:
            for k, s in enumerate(nm["derscalars"]):
                e1[s] = {"sh": [], "d": [env[d]["d"][k]]}
    return e1


def judge(item):
    pm = ir_eval.pymoca()
    ca, np = pm["ca"], pm["np"]
    prog = item["prog"]
    tags = sorted(item["tags"])

    def rec(obs, detail, exc=None, sig=""):
        r = {"observable": obs, "tags": tags, "exception_type": None, "detail": detail, "sigdetail": sig}
        if exc is not None:
            r.update(exc_record(exc))
            r["detail"] = detail + " | " + r["detail"]
        return r
    try:
        m0 = ir_eval.generate(prog)
    except MachineryError:
        raise
    except Exception as e:
        return [rec("generate-raises", "generate() without expansion raised (not this property's subject)", e)], "unexpanded-exc"
    try:
        m1 = ir_eval.generate(prog, {"expand_vectors": True}, simplify=True)
    except MachineryError:
        raise
    except Exception as e:
        return [rec("expansion-raises", "generate + simplify with expand_vectors raised", e)], "exc"
    recs = []
    # 1. names and order: every list of the unexpanded model keeps its order, each variable replaced in place by the
    #    scalars the spec derives for it (the order BETWEEN different variables is the flattener's business: C07 / C10)
    scal = {nm["flat"]: nm["scalars"] for nm in item["namemap"]}
    scal.update({"der(%s)" % nm["flat"]: nm["derscalars"] for nm in item["namemap"]})
    for gi, g in enumerate(item["groups"]):
        want = []
        for v in getattr(m0, g):
            n0 = v.symbol.name()
            if n0.startswith("_pymoca_delay_"):
                continue
            if n0 not in scal:
                recs.append(rec("expanded-names", "unexpanded variable %s is not a flat variable of the program" % n0, sig=g))
                continue
            want += scal[n0]
        got = [v.symbol.name() for v in getattr(m1, g) if not v.symbol.name().startswith("_pymoca_delay_")]
        if got != want:
            recs.append(rec("expanded-names", "%s: %s expected %s" % (g, got, want), sig=g))
        if sorted(want) != sorted(x["name"] for x in item["expect"][gi]):
            recs.append(rec("expanded-names", "%s of the unexpanded model does not hold the variables the spec puts there: %s vs %s" % (
                g, sorted(want), sorted(x["name"] for x in item["expect"][gi])), sig=g + "-membership"))
    if list(m1.outputs) != list(item["outputs"]):
        recs.append(rec("expanded-outputs", "outputs %s expected %s" % (list(m1.outputs), item["outputs"])))
    if recs:
        return recs, "names"
    # 2. attribute elements (+ python type) at the parameter values of every point
    dshapes = delay_shapes(m0)
    types0 = {v.symbol.name(): v.python_type for g in GROUPS for v in getattr(m0, g)}
    flat_of = {}
    for nm in item["namemap"]:
        for s in nm["scalars"]:
            flat_of[s] = nm["flat"]
    for k, p in enumerate(item["pts"]):
        e1 = renamed_env(item, p["env"])
        e1 = _delay_env(m1, e1, dshapes, True)
        for gi, g in enumerate(item["groups"]):
            if g == "der_states":
                continue
            vars1 = {v.symbol.name(): v for v in getattr(m1, g)}
            for exp in item["expect"][gi]:
                v = vars1[exp["name"]]
                if k == 0 and flat_of.get(exp["name"]) in types0 and v.python_type is not types0[flat_of[exp["name"]]]:
                    recs.append(rec("expanded-type", "%s has python_type %s, the array had %s" % (exp["name"], v.python_type.__name__, types0[flat_of[exp["name"]]].__name__), sig="type"))
                for ai, a in enumerate(item["attrs"]):
                    want = dec(exp["attrs"][k][ai])
                    try:
                        got = eval_in_env(getattr(v, a), e1)
                        ok = len(got) == 1 and ir_eval.close(got[0], want)
                    except Exception as e:
                        got, ok = "not evaluable: %r (%s)" % (getattr(v, a), e), False
                    if not ok and not any(r["sigdetail"] == "attr:" + a for r in recs):
                        recs.append(rec("expanded-attribute", "%s.%s = %s, the element of the array attribute is %s" % (exp["name"], a, got, want), sig="attr:" + a))
        # 3. residuals under the renaming, 4. delay arguments
        try:
            a0 = ir_eval.fn_args(m0, _delay_env(m0, p["env"], dshapes, False))
            a1 = ir_eval.fn_args(m1, e1)
        except ir_eval.UnknownVariable as e:
            recs.append(rec("expanded-names", "cannot evaluate: %s" % e, sig="inputs"))
            break
        for nm_, fname in (("dae", "dae_residual_function"), ("initial", "initial_residual_function")):
            try:
                r0 = ir_eval.call_vec(getattr(m0, fname), a0)
                r1 = ir_eval.call_vec(getattr(m1, fname), a1)
            except Exception as e:
                recs.append(rec("expanded-residual", "%s residual cannot be evaluated" % nm_, e, sig=nm_))
                continue
            if len(r0) != len(r1) or not all(ir_eval.close(x, y) for x, y in zip(r1, r0)):
                if not any(r["sigdetail"] == nm_ for r in recs):
                    recs.append(rec("expanded-residual", "%s residual at point %d: expanded %s, unexpanded %s" % (nm_, p["t"], r1[:8], r0[:8]), sig=nm_))
        if m0.delay_states or m1.delay_states:
            # every element of every delayed expression becomes one delay state = one expanded input, named with the
            # subscripts of that element, paired with that element of the delayed expression and the same duration
            in1 = [v.symbol.name() for v in m1.inputs if DELAY.match(v.symbol.name())]
            want_names = []
            for base, (r, c) in dshapes.items():
                want_names += [(base, i, j) for i in range(1, r + 1) for j in range(1, c + 1)]
            got_names = []
            for n in m1.delay_states:
                m = DELAY.match(n)
                got_names.append((m.group(1), int(m.group(2)), int(m.group(3) or 1)) if m else (n, 0, 0))
            if sorted(got_names) != sorted(want_names) or sorted(in1) != sorted(m1.delay_states):
                if not any(r_["sigdetail"] == "delay-names" for r_ in recs):
                    recs.append(rec("expanded-delay-states", "delay states %s, expanded delay inputs %s, elements of the delayed expressions %s" % (
                        list(m1.delay_states), in1, ["%s[%d,%d]" % t for t in want_names]), sig="delay-names"))
            else:
                try:
                    d0 = ir_eval.call_vec(m0.delay_arguments_function, a0)      # [expr_1 (column-major) .., dur_1, expr_2 .., dur_2, ...]
                    d1 = ir_eval.call_vec(m1.delay_arguments_function, a1)      # [e, dur, e, dur, ...] in the order of m1.delay_states
                    elem = {}
                    pos = 0
                    for base in m0.delay_states:
                        r, c = dshapes[base]
                        for j in range(1, c + 1):
                            for i in range(1, r + 1):
                                elem[(base, i, j)] = (d0[pos + (j - 1) * r + (i - 1)], d0[pos + r * c])
                        pos += r * c + 1
                    want = [x for t in got_names for x in elem[t]]
                    if len(want) != len(d1) or not all(ir_eval.close(x, y) for x, y in zip(d1, want)):
                        if not any(r_["sigdetail"] == "delay-args" for r_ in recs):
                            recs.append(rec("expanded-delay-arguments", "delay arguments (expression, duration) per delay state %s: %s, the elements of the unexpanded ones: %s" % (
                                list(m1.delay_states)[:6], d1[:12], want[:12]), sig="delay-args"))
                except Exception as e:
                    recs.append(rec("expanded-delay-arguments", "delay argument functions cannot be compared", e, sig="delay-args"))
    return recs, "ok"


def _work(item):
    return judge(item)


def run(ctx):
    ir_eval.pymoca()
    xdg = ir_eval.scratch_env()
    try:
        from concurrent.futures import ThreadPoolExecutor
        with ThreadPoolExecutor(max_workers=2) as ex:
            f1 = ex.submit(evalrun.tlc_items, ctx, "VectorExpand", "vexp", ctx.tier, "VectorExpand_%s.cfg" % ctx.tier, 4)
            deviates = not evalrun.same_constants("VectorExpand_asbuilt_%s.cfg" % ctx.tier, "VectorExpand_%s.cfg" % ctx.tier)
            f2 = ex.submit(evalrun.tlc_items, ctx, "VectorExpand", "vexp", ctx.tier, "VectorExpand_asbuilt_%s.cfg" % ctx.tier, 2) if deviates else None
            items = f1.result()[0]
            asbuilt = f2.result()[0] if f2 else []
        cov, status = {}, {}
        evals = 0
        outcome = {}
        for it, (recs, st) in zip(items, pmap(_work, items)):
            ctx.programs += 1
            evals += len(it["pts"])
            status[st] = status.get(st, 0) + 1
            outcome[evalrun.json.dumps(it["prog"], sort_keys=True)] = st
            for t in it["tags"]:
                cov[t] = cov.get(t, 0) + 1
            for r in recs:
                ctx.violation(r, {"item": it})
        for t in ("top", "nested", "outer-array", "1-D", "2-D", "kind:state", "kind:output", "kind:parameter", "kind:input",
                  "attr-array-lit", "attr-matrix-lit", "attr-each", "attr-array-mx", "attr-list-of-mx", "int-bool", "delay", "outputs"):
            if not cov.get(t):
                raise MachineryError("vacuous: no program with shape tag %s" % t)
        # binding self-test: a corrupted expected name and a corrupted attribute element must be reported
        import copy
        probe = next((it for it in items if "attr-array-lit" in it["tags"] and "top" in it["tags"] and it["pts"] and not judge(it)[0]), None)
        if probe is None and not ctx.violations:
            raise MachineryError("binding self-test impossible: no program of the family conforms")
        if probe is not None:      # (on a tree with violations everywhere there may be nothing clean to corrupt)
            bad = copy.deepcopy(probe)
            gi = next(i for i, e in enumerate(bad["expect"]) if len(e) >= 2 and bad["groups"][i] != "der_states")
            nm = next(n for n in bad["namemap"] if len(n["scalars"]) >= 2 and n["flat"] == "a")
            nm["scalars"][0], nm["scalars"][1] = nm["scalars"][1], nm["scalars"][0]
            if not any(r["observable"] == "expanded-names" for r in judge(bad)[0]):
                raise MachineryError("binding self-test failed: swapped expected names accepted")
            bad = copy.deepcopy(probe)
            e0, e1 = bad["expect"][gi][0], bad["expect"][gi][1]
            e0["attrs"], e1["attrs"] = e1["attrs"], e0["attrs"]
            if e0["attrs"] != e1["attrs"] and not any(r["observable"] == "expanded-attribute" for r in judge(bad)[0]):
                raise MachineryError("binding self-test failed: swapped attribute elements accepted")
        # as-built switch: the programs on which the model of the pinned code raises must raise on the code (and only those)
        wit = [it for it in asbuilt if it["modelraises"]]
        if not wit:
            # every deviation this property knew about has been fixed in /repo: the as-built switches equal the
            # intended ones, the former counterexample programs stay in the family as ordinary regression programs
            ctx.extra["asbuilt_note"] = "no as-built deviation left: as-built cfg = intended cfg"
        agree = 0
        for it in asbuilt:
            code_raises = outcome.get(evalrun.json.dumps(it["prog"], sort_keys=True)) == "exc"
            if code_raises == bool(it["modelraises"]):
                agree += 1
            else:
                ctx.note_drift("asbuilt-model-raise-differs")
        ctx.traces += len(wit)
        ctx.extra["asbuilt"] = {"counterexample_programs": len(wit), "model_vs_code_agree": agree, "programs": len(asbuilt)}
        for it in (items[0], items[len(items) // 2], items[-1]):
            ctx.sample({"modelica": ir_eval.render(it["prog"]), "expected_names": {g: [x["name"] for x in it["expect"][i]] for i, g in enumerate(it["groups"])},
                        "outputs": it["outputs"]})
        ctx.extra["per_tag_programs"] = cov
        ctx.extra["status"] = status
    finally:
        import shutil
        shutil.rmtree(xdg, ignore_errors=True)
    ctx.assumptions += ["the unexpanded model is the reference for residual and delay-argument values (its own correctness is C11 / C22)"]
    return {"evaluations": evals, "exhaustive": True}


def replay(ctx, sc):
    ir_eval.pymoca()
    recs, _st = judge(sc["item"])
    return recs
