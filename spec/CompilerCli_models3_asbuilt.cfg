\* as-built switches (pinned tree): PROG log with the expected (declarative) and the as-built status
\* thorough family B: up to 3 models (all sequences over 8 class names) x one other change
CONSTANTS MaxDev = 2  SampleDev = 9  MaxPaths = 1  MaxModels = 3  MaxModelsRich = 2  MaxOpts = 1
          CliCountsTranslateFailures = FALSE  CliCatchesTranslateErrors = FALSE  CliCountsMissingModelFile = FALSE
          Emit = TRUE  NParts <- NPartsEnv  Part <- PartEnv
INIT Init
NEXT Next
INVARIANT DeviationsExplainAll
ACTION_CONSTRAINT Log
INVARIANT NoWorkAfterUsageError
PROPERTY ErrorsMonotone
CHECK_DEADLOCK FALSE
