\* as-built value of DeclEqLhsIsReference only: TLC is expected to report a counterexample to NoElementMoved
CONSTANTS DeclEqLhsIsReference = FALSE
          EmitsElseWhen = TRUE
          ExpressionAttributes = TRUE
          Family = "cex"
INIT Init
NEXT Next
VIEW View
INVARIANT TypeOK
INVARIANT NeverRaises
INVARIANT NoElementMoved
INVARIANT Counts
INVARIANT Mirrors
INVARIANT ReadBack
CHECK_DEADLOCK FALSE
