---- MODULE Connect_TTrace_1790035374 ----
EXTENDS Sequences, TLCExt, Toolbox, Connect, Naturals, TLC

_expression ==
    LET Connect_TEExpression == INSTANCE Connect_TEExpression
    IN Connect_TEExpression!expression
----

_trace ==
    LET Connect_TETrace == INSTANCE Connect_TETrace
    IN Connect_TETrace!trace
----

_inv ==
    ~(
        TLCGet("level") = Len(_TETrace)
        /\
        layout = (<<"p", "f">>)
        /\
        fcObj = ((<<<<1, "x">>, 2, TRUE>> :> 1 @@ <<<<1, "a">>, 2, FALSE>> :> 1))
        /\
        nextId = (2)
        /\
        pc = ("done")
        /\
        fcKeys = (<<<<<<1, "a">>, 2, FALSE>>, <<<<1, "x">>, 2, TRUE>>>>)
        /\
        eqs = (<<<<<<<<1, "a">>, 1, 1>>, <<<<1, "x">>, 1, -1>>>>, <<<<<<1, "a">>, 2, -1>>, <<<<1, "x">>, 2, 1>>>>, <<<<<<1, "b">>, 2, 1>>>>, <<<<<<1, "y">>, 2, 1>>>>, <<<<<<0, "p">>, 2, 1>>>>, <<<<<<0, "q">>, 2, 1>>>>>>)
        /\
        disc = (<<<<<<1, "b">>, 2>>, <<<<1, "y">>, 2>>, <<<<0, "p">>, 2>>, <<<<0, "q">>, 2>>>>)
        /\
        heap = (<<<<<<<<1, "a">>, 2, FALSE>>, <<<<1, "x">>, 2, TRUE>>>>>>)
        /\
        prog = (<<[sc |-> 1, l |-> <<1, "a">>, r |-> <<1, "x">>]>>)
        /\
        tags = ({"fresh", "hier"})
    )
----

_init ==
    /\ prog = _TETrace[1].prog
    /\ heap = _TETrace[1].heap
    /\ pc = _TETrace[1].pc
    /\ disc = _TETrace[1].disc
    /\ nextId = _TETrace[1].nextId
    /\ layout = _TETrace[1].layout
    /\ fcObj = _TETrace[1].fcObj
    /\ eqs = _TETrace[1].eqs
    /\ tags = _TETrace[1].tags
    /\ fcKeys = _TETrace[1].fcKeys
----

_next ==
    /\ \E i,j \in DOMAIN _TETrace:
        /\ \/ /\ j = i + 1
              /\ i = TLCGet("level")
        /\ prog  = _TETrace[i].prog
        /\ prog' = _TETrace[j].prog
        /\ heap  = _TETrace[i].heap
        /\ heap' = _TETrace[j].heap
        /\ pc  = _TETrace[i].pc
        /\ pc' = _TETrace[j].pc
        /\ disc  = _TETrace[i].disc
        /\ disc' = _TETrace[j].disc
        /\ nextId  = _TETrace[i].nextId
        /\ nextId' = _TETrace[j].nextId
        /\ layout  = _TETrace[i].layout
        /\ layout' = _TETrace[j].layout
        /\ fcObj  = _TETrace[i].fcObj
        /\ fcObj' = _TETrace[j].fcObj
        /\ eqs  = _TETrace[i].eqs
        /\ eqs' = _TETrace[j].eqs
        /\ tags  = _TETrace[i].tags
        /\ tags' = _TETrace[j].tags
        /\ fcKeys  = _TETrace[i].fcKeys
        /\ fcKeys' = _TETrace[j].fcKeys

\* Uncomment the ASSUME below to write the states of the error trace
\* to the given file in Json format. Note that you can pass any tuple
\* to `JsonSerialize`. For example, a sub-sequence of _TETrace.
    \* ASSUME
    \*     LET J == INSTANCE Json
    \*         IN J!JsonSerialize("Connect_TTrace_1790035374.json", _TETrace)

=============================================================================

 Note that you can extract this module `Connect_TEExpression`
  to a dedicated file to reuse `expression` (the module in the 
  dedicated `Connect_TEExpression.tla` file takes precedence 
  over the module `Connect_TEExpression` below).

---- MODULE Connect_TEExpression ----
EXTENDS Sequences, TLCExt, Toolbox, Connect, Naturals, TLC

expression == 
    [
        \* To hide variables of the `Connect` spec from the error trace,
        \* remove the variables below.  The trace will be written in the order
        \* of the fields of this record.
        prog |-> prog
        ,heap |-> heap
        ,pc |-> pc
        ,disc |-> disc
        ,nextId |-> nextId
        ,layout |-> layout
        ,fcObj |-> fcObj
        ,eqs |-> eqs
        ,tags |-> tags
        ,fcKeys |-> fcKeys
        
        \* Put additional constant-, state-, and action-level expressions here:
        \* ,_stateNumber |-> _TEPosition
        \* ,_progUnchanged |-> prog = prog'
        
        \* Format the `prog` variable as Json value.
        \* ,_progJson |->
        \*     LET J == INSTANCE Json
        \*     IN J!ToJson(prog)
        
        \* Lastly, you may build expressions over arbitrary sets of states by
        \* leveraging the _TETrace operator.  For example, this is how to
        \* count the number of times a spec variable changed up to the current
        \* state in the trace.
        \* ,_progModCount |->
        \*     LET F[s \in DOMAIN _TETrace] ==
        \*         IF s = 1 THEN 0
        \*         ELSE IF _TETrace[s].prog # _TETrace[s-1].prog
        \*             THEN 1 + F[s-1] ELSE F[s-1]
        \*     IN F[_TEPosition - 1]
    ]

=============================================================================



Parsing and semantic processing can take forever if the trace below is long.
 In this case, it is advised to uncomment the module below to deserialize the
 trace from a generated binary file.

\*
\*---- MODULE Connect_TETrace ----
\*EXTENDS IOUtils, Connect, TLC
\*
\*trace == IODeserialize("Connect_TTrace_1790035374.bin", TRUE)
\*
\*=============================================================================
\*

---- MODULE Connect_TETrace ----
EXTENDS Connect, TLC

trace == 
    <<
    ([layout |-> <<"p", "f">>,fcObj |-> <<>>,nextId |-> 1,pc |-> "connects",fcKeys |-> <<>>,eqs |-> <<>>,disc |-> <<<<<<1, "a">>, 2>>, <<<<1, "b">>, 2>>, <<<<1, "x">>, 2>>, <<<<1, "y">>, 2>>, <<<<0, "p">>, 2>>, <<<<0, "q">>, 2>>>>,heap |-> <<>>,prog |-> <<>>,tags |-> {}]),
    ([layout |-> <<"p", "f">>,fcObj |-> (<<<<1, "x">>, 2, TRUE>> :> 1 @@ <<<<1, "a">>, 2, FALSE>> :> 1),nextId |-> 2,pc |-> "connects",fcKeys |-> <<<<<<1, "a">>, 2, FALSE>>, <<<<1, "x">>, 2, TRUE>>>>,eqs |-> <<<<<<<<1, "a">>, 1, 1>>, <<<<1, "x">>, 1, -1>>>>>>,disc |-> <<<<<<1, "b">>, 2>>, <<<<1, "y">>, 2>>, <<<<0, "p">>, 2>>, <<<<0, "q">>, 2>>>>,heap |-> <<<<<<<<1, "a">>, 2, FALSE>>, <<<<1, "x">>, 2, TRUE>>>>>>,prog |-> <<[sc |-> 1, l |-> <<1, "a">>, r |-> <<1, "x">>]>>,tags |-> {"fresh", "hier"}]),
    ([layout |-> <<"p", "f">>,fcObj |-> (<<<<1, "x">>, 2, TRUE>> :> 1 @@ <<<<1, "a">>, 2, FALSE>> :> 1),nextId |-> 2,pc |-> "zeros",fcKeys |-> <<<<<<1, "a">>, 2, FALSE>>, <<<<1, "x">>, 2, TRUE>>>>,eqs |-> <<<<<<<<1, "a">>, 1, 1>>, <<<<1, "x">>, 1, -1>>>>, <<<<<<1, "a">>, 2, -1>>, <<<<1, "x">>, 2, 1>>>>>>,disc |-> <<<<<<1, "b">>, 2>>, <<<<1, "y">>, 2>>, <<<<0, "p">>, 2>>, <<<<0, "q">>, 2>>>>,heap |-> <<<<<<<<1, "a">>, 2, FALSE>>, <<<<1, "x">>, 2, TRUE>>>>>>,prog |-> <<[sc |-> 1, l |-> <<1, "a">>, r |-> <<1, "x">>]>>,tags |-> {"fresh", "hier"}]),
    ([layout |-> <<"p", "f">>,fcObj |-> (<<<<1, "x">>, 2, TRUE>> :> 1 @@ <<<<1, "a">>, 2, FALSE>> :> 1),nextId |-> 2,pc |-> "done",fcKeys |-> <<<<<<1, "a">>, 2, FALSE>>, <<<<1, "x">>, 2, TRUE>>>>,eqs |-> <<<<<<<<1, "a">>, 1, 1>>, <<<<1, "x">>, 1, -1>>>>, <<<<<<1, "a">>, 2, -1>>, <<<<1, "x">>, 2, 1>>>>, <<<<<<1, "b">>, 2, 1>>>>, <<<<<<1, "y">>, 2, 1>>>>, <<<<<<0, "p">>, 2, 1>>>>, <<<<<<0, "q">>, 2, 1>>>>>>,disc |-> <<<<<<1, "b">>, 2>>, <<<<1, "y">>, 2>>, <<<<0, "p">>, 2>>, <<<<0, "q">>, 2>>>>,heap |-> <<<<<<<<1, "a">>, 2, FALSE>>, <<<<1, "x">>, 2, TRUE>>>>>>,prog |-> <<[sc |-> 1, l |-> <<1, "a">>, r |-> <<1, "x">>]>>,tags |-> {"fresh", "hier"}])
    >>
----


=============================================================================

---- CONFIG Connect_TTrace_1790035374 ----
CONSTANTS
    NComp = 1
    MaxLen = 2
    MaxSub = 2
    WithLeaf = TRUE
    Layouts <- LayoutsPF
    AllowSelf = TRUE
    Emit = FALSE
    FullLen = 99
    NParts = 1
    Part = 0
    ZeroIfNotConnectedAsInside = TRUE

INVARIANT
    _inv

CHECK_DEADLOCK
    \* CHECK_DEADLOCK off because of PROPERTY or INVARIANT above.
    FALSE

INIT
    _init

NEXT
    _next

CONSTANT
    _TETrace <- _trace

ALIAS
    _expression
=============================================================================
\* Generated on Tue Sep 22 00:03:15 UTC 2026