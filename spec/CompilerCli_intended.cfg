\* intended behaviour (all switches TRUE): TLC must pass
\* family: every invocation within 2 changes of the plain one, plus the share C26_PART/C26_NPARTS of those with 3 changes
CONSTANTS MaxDev = 2  SampleDev = 3  MaxPaths = 2  MaxModels = 2  MaxModelsRich = 2  MaxOpts = 2
          CliCountsTranslateFailures = TRUE  CliCatchesTranslateErrors = TRUE  CliCountsMissingModelFile = TRUE
          Emit = FALSE  NParts <- NPartsEnv  Part <- PartEnv
INIT Init
NEXT Next
INVARIANT StatusIsCount
INVARIANT NeverCrashes
INVARIANT NoWorkAfterUsageError
INVARIANT SumOfSingles
PROPERTY ErrorsMonotone
PROPERTY PerModelIndependent
CHECK_DEADLOCK FALSE
