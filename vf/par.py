"""Small helper: run a function over many items in forked worker processes.

The function runs in a child that has pymoca importable from VERIF_REPO; results must be
JSON-able / picklable.  Exceptions raised by the function itself are machinery failures
(adapters must catch exceptions of the code under test and return them as observations).

start() may be called early in a check (before large TLC logs are loaded): the pool is then
forked from a small parent, which avoids copying a huge address space 16 times; pmap() reuses it.
"""
import atexit
import os
from concurrent.futures import ProcessPoolExecutor
import multiprocessing as mp

_pool = None
_pool_procs = 0


def nprocs(procs=None):
    return procs or min(16, os.cpu_count() or 4, int(os.environ.get("VERIF_PROCS", "16")))


def start(procs=None):
    """fork the worker pool now (idempotent)"""
    global _pool, _pool_procs
    if _pool is None:
        _pool_procs = nprocs(procs)
        if _pool_procs > 1:
            _pool = ProcessPoolExecutor(max_workers=_pool_procs, mp_context=mp.get_context("fork"))
            # make the workers exist now, not lazily at the first submit
            list(_pool.map(_noop, range(_pool_procs * 2)))
            atexit.register(stop)
    return _pool


def _noop(x):
    return x


def stop():
    global _pool
    if _pool is not None:
        _pool.shutdown(wait=False, cancel_futures=True)
        _pool = None


def pmap(fn, items, procs=None, chunksize=None):
    items = list(items)
    procs = nprocs(procs)
    if procs <= 1 or len(items) < 4:
        return [fn(x) for x in items]
    chunksize = chunksize or max(1, len(items) // (procs * 8))
    if _pool is not None:
        return list(_pool.map(fn, items, chunksize=chunksize))
    ctx = mp.get_context("fork")
    with ProcessPoolExecutor(max_workers=procs, mp_context=ctx) as ex:
        return list(ex.map(fn, items, chunksize=chunksize))
