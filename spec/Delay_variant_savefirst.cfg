\* NOT how the code behaves: saving to the cache before _post_checks; TLC must refute CacheHoldsOnlyAccepted (shows the spec would notice)
CONSTANTS LoopDelayOwnFreeVars = TRUE
          LoopDurationMapped = TRUE
          ParamValuesReachDelays = TRUE
          ChecksBeforeSave = FALSE AliasesReachDurations = TRUE
          DelayInputsForbidden = TRUE ExpandKeepsElements = TRUE
          Family = "cex"
INIT Init
NEXT Next
VIEW View
INVARIANT TypeOK
INVARIANT NoPlaceholderLeft
INVARIANT RejectsExactly
INVARIANT ArgumentsPreserved
INVARIANT CacheHoldsOnlyAccepted
INVARIANT SameAnswerTwice
CHECK_DEADLOCK FALSE
