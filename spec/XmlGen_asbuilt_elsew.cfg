\* as-built value of EmitsElseWhen only: TLC is expected to report a counterexample to Mirrors
CONSTANTS DeclEqLhsIsReference = TRUE
          EmitsElseWhen = FALSE
          ExpressionAttributes = TRUE
          Family = "cex"
INIT Init
NEXT Next
VIEW View
INVARIANT TypeOK
INVARIANT NeverRaises
INVARIANT NoElementMoved
INVARIANT Counts
INVARIANT Mirrors
INVARIANT ReadBack
CHECK_DEADLOCK FALSE
