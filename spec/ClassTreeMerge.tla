--------------------------- MODULE ClassTreeMerge ---------------------------
(* Property C27.  "Assembling a library from several files is order-independent."

   A package library is split into files.  Every file declares a subtree of
   the library below a `within` path; parser.file_to_tree turns the within
   path into PLACEHOLDER packages (ast.Class(name, type="package") with no
   content).  Tree.extend / Class._extend merge the per-file trees:

       for every class of the incoming tree:
           already there  ->  recurse into the children, keep the existing node
           not there      ->  adopt the incoming node with its whole subtree

   As built, "keep the existing node" also applies when the existing node is
   only a placeholder and the incoming one is the package's own definition:
   the package's constants (and extends / imports) are dropped.  The switch
   MergeIntoPlaceholder = TRUE is the intended behaviour (the definition
   replaces the placeholder and keeps the children collected so far).

   Skeleton of the library (constant):

       package Lib            constants LibConsts(shape)
         package Sub          constants SubConsts(shape)
           model MS           Real x;           refers to Lib.Sub.* and Lib.*
         model M1             Real x;           refers to Lib.*
         model M2             Lib.M1 a; Real y; refers to Lib.Sub.*

   A split is a set of cut nodes; every cut node becomes the root of its own
   file with `within <parent path>`; Lib's own file always exists.  All
   permutations of the files are explored (`done` is a sequence).           *)
EXTENDS Integers, Sequences, FiniteSets, TLC, Json

CONSTANTS MergeIntoPlaceholder,
          Shapes                   \* subset of 1..6: which packages carry how many constants

VARIABLES shape, cuts,
          done,      \* files merged so far, in order (a file is named by its root node)
          merged,    \* node -> "absent" | "placeholder" | "real"
          last       \* history variable

vars == <<shape, cuts, done, merged, last>>

Nodes == {"Lib", "Lib.Sub", "Lib.Sub.MS", "Lib.M1", "Lib.M2"}
Models == {"Lib.Sub.MS", "Lib.M1", "Lib.M2"}
CutNodes == Nodes \ {"Lib"}
Parent(n) == CASE n = "Lib" -> "" [] n = "Lib.Sub" -> "Lib" [] n = "Lib.Sub.MS" -> "Lib.Sub"
               [] n = "Lib.M1" -> "Lib" [] n = "Lib.M2" -> "Lib"
Children(n) == {c \in Nodes : Parent(c) = n}
RECURSIVE Ancestors(_)
Ancestors(n) == IF Parent(n) = "" THEN {} ELSE {Parent(n)} \cup Ancestors(Parent(n))
RECURSIVE Descendants(_)
Descendants(n) == Children(n) \cup UNION {Descendants(c) : c \in Children(n)}

LibConsts(s) == CASE s \in {1, 2} -> {} [] s \in {3, 4} -> {"k"} [] s \in {5, 6} -> {"k", "k2"}
SubConsts(s) == IF s \in {2, 4, 6} THEN {"c"} ELSE {}

(* the file with root r declares r and everything below it up to the next cut *)
FileRoots(cs) == {"Lib"} \cup cs
RECURSIVE Owner(_, _)
Owner(cs, n) == IF n \in FileRoots(cs) THEN n ELSE Owner(cs, Parent(n))
Declares(cs, r) == {n \in Nodes : Owner(cs, n) = r}
Within(r) == Ancestors(r)                       \* placeholder packages of the file's tree

(* the per-file tree as file_to_tree builds it *)
FileTree(cs, r) == [n \in Nodes |-> IF n \in Declares(cs, r) THEN "real"
                                    ELSE IF n \in Within(r) THEN "placeholder" ELSE "absent"]

-----------------------------------------------------------------------------
(* Class._extend, transcribed: merge the children of node p of `inc` into `m` *)
Adopt(m, inc, n) == [x \in Nodes |-> IF x = n \/ n \in Ancestors(x) THEN inc[x] ELSE m[x]]

RECURSIVE ExtendAt(_, _, _, _)
ExtendAt(m, inc, todo, stack) ==
    (* todo: children still to visit at the current level; stack: pending levels (sets of nodes) *)
    IF todo = {} THEN (IF stack = <<>> THEN m ELSE ExtendAt(m, inc, Head(stack), Tail(stack)))
    ELSE LET ch == CHOOSE c \in todo : TRUE
             rest == todo \ {ch}
         IN  IF inc[ch] = "absent" THEN ExtendAt(m, inc, rest, stack)
             ELSE IF m[ch] = "absent" THEN ExtendAt(Adopt(m, inc, ch), inc, rest, stack)
             ELSE LET m1 == IF MergeIntoPlaceholder /\ m[ch] = "placeholder" /\ inc[ch] = "real"
                            THEN [m EXCEPT ![ch] = "real"] ELSE m
                  IN  ExtendAt(m1, inc, rest, Append(stack, Children(ch)))

ExtendTree(m, inc) == ExtendAt(m, inc, {"Lib"}, <<>>)

(* Declarative definition (DESIGN Appendix C.7): a node is real iff the file that declares it
   has been merged, a placeholder iff it is only implied by a within clause, else absent *)
UnionOf(cs, fs) == [n \in Nodes |-> IF Owner(cs, n) \in fs THEN "real"
                                    ELSE IF \E r \in fs : n \in Within(r) THEN "placeholder" ELSE "absent"]

-----------------------------------------------------------------------------
(* flat variables of a model in a merged tree.  A reference Lib.k is resolved (and becomes a
   flat symbol) only if package Lib really carries the constant.                              *)
ConstSyms(s, m, pkg) == IF m[pkg] # "real" THEN {}
                        ELSE IF pkg = "Lib" THEN {"Lib." \o k : k \in LibConsts(s)}
                        ELSE {"Lib.Sub." \o k : k \in SubConsts(s)}
FlatM1(s, m) == {"x"} \cup ConstSyms(s, m, "Lib")
FlatOf(s, m, mod) ==
    IF m[mod] # "real" THEN [ok |-> FALSE, vars |-> {}]
    ELSE CASE mod = "Lib.M1" -> [ok |-> TRUE, vars |-> FlatM1(s, m)]
           [] mod = "Lib.Sub.MS" -> [ok |-> TRUE, vars |-> {"x"} \cup ConstSyms(s, m, "Lib") \cup ConstSyms(s, m, "Lib.Sub")]
           [] mod = "Lib.M2" -> IF m["Lib.M1"] # "real" THEN [ok |-> FALSE, vars |-> {}]
                                ELSE [ok |-> TRUE, vars |-> {"y"} \cup ConstSyms(s, m, "Lib.Sub")
                                                             \cup {"a." \o v : v \in FlatM1(s, m)}]
Flats(s, m) == [mod \in Models |-> FlatOf(s, m, mod)]

-----------------------------------------------------------------------------
Init == /\ shape \in Shapes
        /\ cuts \in SUBSET CutNodes
        /\ done = <<>>
        /\ merged = [n \in Nodes |-> "absent"]
        /\ last = [act |-> "init"]

DoneSet == {done[k] : k \in DOMAIN done}

Extend(r) ==
    /\ r \in FileRoots(cuts) \ DoneSet
    /\ merged' = ExtendTree(merged, FileTree(cuts, r))
    /\ done' = Append(done, r)
    /\ last' = [act |-> "extend", file |-> r,
                flats |-> Flats(shape, merged'),                               \* what this config's merge shows
                union |-> Flats(shape, UnionOf(cuts, DoneSet \cup {r})),       \* what the property requires
                complete |-> (DoneSet \cup {r} = FileRoots(cuts))]
    /\ UNCHANGED <<shape, cuts>>

Next == \E r \in Nodes : Extend(r)
Spec == Init /\ [][Next]_vars

-----------------------------------------------------------------------------
(* The property: after every prefix of every order the merged tree is the union of the files
   merged so far; in particular every complete order gives the single-file library.          *)
PrefixConfluence == merged = UnionOf(cuts, DoneSet)
Confluence == DoneSet = FileRoots(cuts) => merged = [n \in Nodes |-> "real"]
FlatConfluence == last.act = "extend" => last.flats = last.union
TypeOK == /\ \A n \in Nodes : merged[n] \in {"absent", "placeholder", "real"}
          /\ \A n \in Nodes : merged[n] # "absent" => \A a \in Ancestors(n) : merged[a] # "absent"

-----------------------------------------------------------------------------
View == <<shape, cuts, done, merged>>
Log == PrintT(<<"TR", ToJson([src |-> [shape |-> shape, cuts |-> cuts, done |-> done],
                              act |-> last' @@ [merged |-> merged'],
                              dst |-> [shape |-> shape', cuts |-> cuts', done |-> done']])>>)
ASSUME \A s \in Shapes : PrintT(<<"SHAPE", ToJson([id |-> s, lib |-> LibConsts(s), sub |-> SubConsts(s)])>>)
=============================================================================
