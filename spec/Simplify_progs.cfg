\* lists the programs (PROG lines: IR, solution, tags) of the base family; option set = none
CONSTANTS Family = "base" OptMode = "none" ConstValuesResolved = TRUE OldAliasSignStripped = TRUE
          PrintProg = TRUE PrintFin = FALSE PrintCex = FALSE
INIT Init
NEXT Next
VIEW View
ACTION_CONSTRAINT Log
INVARIANT TypeOK
CHECK_DEADLOCK FALSE
