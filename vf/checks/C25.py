"""C25 - ModelicaXML backend mirrors the flat model.

Spec: spec/XmlGen.tla.  Oracle mode (binding C): TLC enumerates a family of flat models, checks that the
operational model of XmlGenerator (bottom-up walk over an lxml-like element heap) produces the declarative
mirror image XmlOf(flat) and that reading it back gives the flat equations, and prints per program the
expected components and equation elements.  Every program is rendered to Modelica, sent through
pymoca.backends.xml.generator.generate, the text is parsed with lxml (well-formedness), mapped to the
abstract element tree and compared:

  * generate     generate() returns (does not raise)
  * well-formed  the text parses as XML
  * component    one <component> per flat variable, in order: name, builtin type, variability, literal start / value
  * equation     one element per flat equation under <equation>, in order, tree equal to the spec's,
                 operator for operator and operand for operand
"""
import json
from fractions import Fraction

from vf import tlc
from vf.core import MachineryError, exc_record
from vf.par import pmap
from vf import b8_modelica as bm

META = {
    "ready": True,
    "category": "model_checking",
    "technique": "TLA+ reference model of the XML generator (XmlGen.tla: element heap with lxml's single-parent semantics, "
                 "declarative XmlOf(flat) and its inverse reader) model-checked by TLC over a bounded family of flat models; every "
                 "program replayed through the real generator and the parsed output compared element for element",
    "text": "TLC checks for every flat model of the family (all expression shapes of depth 2 over unary minus, + - * / ^, one- and "
            "two-argument calls, der, time, integer/real/Boolean literals; relational and logical operators; calls of arity 1-3; every "
            "type x variability x literal/negative/expression start and value x fixed; variability combined with input/output/flow "
            "prefixes on one declaration; declaration equations; when-equations with 0-2 "
            "elsewhen branches) that the generator's walk yields exactly XmlOf(flat), that no element is handed to two parents, and that "
            "reading the XML back (operator/apply by arity, as the XML parser back end does) returns the flat equations.  The real "
            "generator's output for each program is parsed with lxml and its components and equation elements are compared with the spec's.",
    "note": "Trusted: TLC, the Modelica renderer, the 40-line lxml -> abstract tree reader. A Boolean literal is accepted as <true/>/"
            "<false/> or as value=\"True\"/\"False\" (the property asks for the literal, not its spelling); a missing variability "
            "attribute means continuous (as the XML parser back end reads it). start/value given by a non-literal expression are "
            "only required not to break generation. Arrays, if-expressions, if-/for-equations are outside the generator's subset "
            "(it raises KeyError for them) and are not in the family. Schema validity is not checked (schema submodule absent).",
    "design_ref": "DESIGN.md section 6, C25",
}

CLASS_TAGS = {"expr", "bool", "comp", "comp2", "when", "decl-eq", "elsewhen", "attr-expr", "bool-attr", "two-prefixes", "flow", "declit", "decimal-literal"}


# ------------------------------------------------------------------------------------------------
# rendering of the XmlGen program IR

def decl_text(v):
    mods = []
    if v["start"]["k"] != "none":
        mods.append("start = %s" % bm.rexpr(v["start"]))
    if v["fixed"] != "none":
        mods.append("fixed = %s" % v["fixed"])
    return "  %s%s %s%s%s;" % ("".join(p + " " for p in v["pres"]), v["type"], v["key"],
                               "(%s)" % ", ".join(mods) if mods else "",
                               " = %s" % bm.rexpr(v["value"]) if v["value"]["k"] != "none" else "")


def eq_text(q, ind="  "):
    if q["k"] == "when":
        out = ["%swhen %s then" % (ind, bm.rexpr(q["cond"]))]
        out += [eq_text(e, ind + "  ") for e in q["then"]]
        for b in q["elsew"]:
            out.append("%selsewhen %s then" % (ind, bm.rexpr(b["cond"])))
            out += [eq_text(e, ind + "  ") for e in b["then"]]
        out.append("%send when;" % ind)
        return "\n".join(out)
    return "%s%s = %s;" % (ind, bm.rexpr(q["l"]), bm.rexpr(q["r"]))


def render(prog):
    return "model %s\n%s\nequation\n%s\nend %s;\n" % (bm.MODEL, "\n".join(decl_text(v) for v in prog["vars"]),
                                                      "\n".join(eq_text(q) for q in prog["eqs"]), bm.MODEL)


def eq_norm(q):
    """spec equation IR -> comparable form"""
    if q["k"] == "when":
        return {"when": [[bm.strip(q["cond"]), [eq_norm(e) for e in q["then"]]]] +
                        [[bm.strip(b["cond"]), [eq_norm(e) for e in b["then"]]] for b in q["elsew"]]}
    return {"l": bm.strip(q["l"]), "r": bm.strip(q["r"])}


def eq_project(q):
    """pymoca flat equation -> the same comparable form"""
    from pymoca import ast
    if isinstance(q, ast.WhenEquation):
        return {"when": [[bm.strip(bm.pexpr(c)), [eq_project(e) for e in blk]] for c, blk in zip(q.conditions, q.blocks)]}
    if isinstance(q, ast.Equation):
        return {"l": bm.strip(bm.pexpr(q.left)), "r": bm.strip(bm.pexpr(q.right))}
    raise ValueError("equation kind %s" % type(q).__name__)


# ------------------------------------------------------------------------------------------------
# reading the real output

def literal(text):
    t = text.strip()
    if t.lower() in ("true", "false"):
        return "boolean", [1 if t.lower() == "true" else 0, 1]
    try:
        f = Fraction(t)
    except (ValueError, ZeroDivisionError):
        return "real", ["text", t]
    return "real", [f.numerator, f.denominator]


def abstract(el):
    """lxml element -> spec tree {"tag","attrs","num","kids"}"""
    tag = el.tag.split("}")[-1] if isinstance(el.tag, str) else str(el.tag)
    attrs = sorted([k.split("}")[-1], v] for k, v in el.attrib.items())
    kids = [abstract(c) for c in el if isinstance(c.tag, str)]
    num = [0, 0]
    if tag == "real" and "value" in el.attrib:
        tag, num = literal(el.attrib["value"])
        attrs = [a for a in attrs if a[0] != "value"]
    elif tag in ("true", "false") and not kids:
        tag, num = "boolean", [1 if tag == "true" else 0, 1]
    elif tag == "component" and "variability" not in el.attrib:
        attrs = sorted(attrs + [["variability", "continuous"]])
    return {"tag": tag, "attrs": attrs, "num": num, "kids": kids}


def canon(x):
    """spec tree -> same normal form (attrs sorted); a decimal literal becomes the exact rational of its text"""
    if x["tag"] == "real" and x["attrs"] and x["attrs"][0][0] == "dec":
        f = Fraction(x["attrs"][0][1])
        return {"tag": "real", "attrs": [], "num": [f.numerator, f.denominator], "kids": []}
    return {"tag": x["tag"], "attrs": sorted([list(a) for a in x["attrs"]]), "num": list(x["num"]), "kids": [canon(k) for k in x["kids"]]}


def first_diff(want, got, path=""):
    """first difference between two abstract trees, as text (want = spec, got = output)"""
    here = "%s/%s" % (path, want["tag"])
    if want["tag"] != got["tag"]:
        return "element", "%s: element <%s> where <%s> is required" % (here, got["tag"], want["tag"])
    if want["attrs"] != got["attrs"]:
        return "operator", "%s: attributes %s where %s is required" % (here, got["attrs"], want["attrs"])
    if want["num"] != got["num"]:
        return "literal", "%s: literal %s where %s is required" % (here, got["num"], want["num"])
    if len(want["kids"]) != len(got["kids"]):
        return "arity", "%s: %d operands/children %s where %d are required %s" % (
            here, len(got["kids"]), [k["tag"] for k in got["kids"]], len(want["kids"]), [k["tag"] for k in want["kids"]])
    for a, b in zip(want["kids"], got["kids"]):
        d = first_diff(a, b, here)
        if d:
            return d
    return None


def find(x, tag):
    return [k for k in x["kids"] if k["tag"] == tag]


def comp_view(c):
    """component element -> what the property names"""
    attrs = dict((a[0], a[1]) for a in c["attrs"])
    b = find(c, "builtin")
    items = {}
    for m in find(c, "modifier"):
        for it in find(m, "item"):
            nm = dict((a[0], a[1]) for a in it["attrs"]).get("name")
            items[nm] = it["kids"][0] if len(it["kids"]) == 1 else {"tag": "?", "attrs": [], "num": [0, 0], "kids": it["kids"]}
    return {"name": attrs.get("name"), "type": dict((a[0], a[1]) for a in b[0]["attrs"]).get("name") if b else None,
            "variability": attrs.get("variability"), "start": items.get("start"), "value": items.get("value")}


NONE = {"tag": "none", "attrs": [], "num": [0, 0], "kids": []}


def observe(item):
    prog = item["prog"]
    from pymoca import parser, tree, ast
    import pymoca.backends.xml.generator as gen
    from lxml import etree
    txt = render(prog)
    obs = {"text": txt}
    try:
        t1 = parser.parse(txt, bypass_cache=True)
        if t1 is None:
            obs["frontend"] = "parse returned None"
            return obs
        flat = tree.flatten(t1, ast.ComponentRef(name=bm.MODEL)).classes[bm.MODEL]
        got_vars = [(s.name, s.type.name, sorted(p for p in s.prefixes if p != "state")) for s in flat.symbols.values()]
        got_eqs = [eq_project(q) for q in flat.equations]
    except Exception as e:
        obs["frontend"] = "front end raised %s: %s" % (type(e).__name__, str(e)[:200])
        return obs
    want_vars = [(v["key"], v["type"], sorted(v["pres"])) for v in prog["vars"]]
    want_eqs = [eq_norm(q) for q in item["flateqs"]]
    if got_vars != want_vars or got_eqs != want_eqs:
        obs["frontend"] = "flat model differs from the program: vars %s, %d equations" % (got_vars, len(got_eqs))
        return obs
    try:
        xml = gen.generate(parser.parse(txt, bypass_cache=True), bm.MODEL)
    except Exception as e:
        obs["generate_exc"] = exc_record(e)
        return obs
    obs["xml_text"] = xml
    try:
        root = etree.fromstring(xml.encode("utf-8"))
    except etree.XMLSyntaxError as e:
        obs["malformed"] = str(e)[:300]
        return obs
    obs["tree"] = abstract(root)
    return obs


def judge(item, obs):
    exp, ab = item["expect"], item["asbuilt"]
    recs, drift, compared = [], [], []
    tags = sorted(set(item["tags"]) & CLASS_TAGS)
    if "frontend" in obs:
        return recs, ["frontend: program not delivered to the backend"], compared

    def rec(observable, detail, matches, exc=None, sig=""):
        r = {"observable": observable, "tags": tags + (["matches-asbuilt"] if matches else []), "exception_type": exc, "detail": detail}
        if sig:
            r["sigdetail"] = sig
        recs.append(r)

    compared.append("generate")
    raised = "generate_exc" in obs
    if raised != ab["raises"]:
        drift.append("as-built model: raising differs")
    if raised and "elsewhen" in item["tags"] and obs["generate_exc"]["exception_type"] == "NotImplementedError":
        return recs, drift + ["elsewhen declared unsupported by the generator (NotImplementedError)"], compared
    if raised:
        rec("generate", "generate() raised %s for\n%s" % (obs["generate_exc"]["detail"], obs["text"]), ab["raises"],
            obs["generate_exc"]["exception_type"])
        return recs, drift, compared
    compared.append("well-formed")
    if "malformed" in obs:
        rec("well-formed", "output is not well-formed XML: %s" % obs["malformed"], False, "XMLSyntaxError")
        return recs, drift, compared
    got = obs["tree"]
    abx = canon(ab["xml"]) if not ab["raises"] else None
    if abx is not None and abx != got:
        drift.append("as-built model: element tree differs")
    # locate class
    try:
        cls = find(find(find(got, "declarations")[0], "classDefinition")[0], "class")[0]
    except IndexError:
        rec("component", "no modelica/declarations/classDefinition/class element in the output", False)
        return recs, drift, compared
    abcls = find(find(find(abx, "declarations")[0], "classDefinition")[0], "class")[0] if abx else None
    # components
    compared.append("component")
    comps = [comp_view(c) for c in find(cls, "component")]
    want = exp["comps"]
    bad = None
    if len(comps) != len(want) or sorted(str(c["name"]) for c in comps) != sorted(w["name"] for w in want):
        bad = ("count", "component elements %s for flat variables %s" % ([c["name"] for c in comps], [w["name"] for w in want]))
    else:
        if [c["name"] for c in comps] != [w["name"] for w in want]:
            drift.append("component order differs from declaration order")
        byname = {c["name"]: c for c in comps}
        for w in want:
            c = byname[w["name"]]
            for f in ("name", "type", "variability"):
                if c[f] != w[f] and not bad:
                    bad = (f, "component %s: %s is %r, flat variable has %r" % (w["name"], f, c[f], w[f]))
            for f, lit in (("start", w["startlit"]), ("value", w["valuelit"])):
                if lit and not bad:
                    wv = canon(w[f])
                    gv = c[f] if c[f] is not None else NONE
                    if wv != gv:
                        bad = (f, "component %s: literal %s is %s, flat variable has %s" % (
                            w["name"], f, json.dumps(gv)[:120], json.dumps(wv)[:120]))
    if bad:
        abcomps = [comp_view(c) for c in find(abcls, "component")] if abcls else None
        rec("component", bad[1], abcomps == comps, sig=bad[0])
    # equations
    compared.append("equation")
    secs = find(cls, "equation")
    eqs = secs[0]["kids"] if len(secs) == 1 else []
    wante = [canon(q) for q in exp["eqs"]]
    bad = None
    if len(secs) != 1:
        bad = ("section", "%d <equation> sections" % len(secs))
    elif len(eqs) != len(wante):
        bad = ("count", "%d equation elements for %d flat equations" % (len(eqs), len(wante)))
    else:
        left = list(eqs)
        for qi, w in enumerate(wante):
            if w in left:
                left.remove(w)
                continue
            g = eqs[qi] if eqs[qi] in left else left[0]
            d = first_diff(w, g)
            bad = (d[0], "flat equation %d has no element equal to it; nearest: %s" % (qi, d[1]))
            break
        if not bad and eqs != wante:
            drift.append("equation order differs from the flat model")
    if bad:
        abeqs = find(abcls, "equation")[0]["kids"] if abcls else None
        rec("equation", bad[1] + "\n" + obs["text"], abeqs == eqs, sig=bad[0])
    # everything else (fixed items, format / kind attributes, element order inside class): drift only
    if not recs and canon(exp["xml"]) != got and all(w["startlit"] and w["valuelit"] for w in want):
        drift.append("elements the property does not name differ from XmlOf")
    return recs, drift, compared


def work(item):
    obs = observe(item)
    recs, drift, compared = judge(item, obs)
    small = {k: v for k, v in obs.items() if k in ("text", "frontend", "generate_exc", "malformed")}
    if "xml_text" in obs:
        small["xml_text"] = obs["xml_text"][:1500]
    return {"recs": recs, "drift": drift, "compared": compared, "obs": small}


def tlc_items(ctx, r, what):
    ctx.add_tlc(r, what)
    if r.violated:
        raise MachineryError("spec XmlGen violates %s under the intended switches:\n%s" % (r.violated, r.cex[:1500]))
    items = r.tr("PROG")
    if not items:
        raise MachineryError("no PROG lines")
    for it in items:
        if it["pred"]["raises"] or canon(it["pred"]["xml"]) != canon(it["expect"]["xml"]):
            raise MachineryError("intended prediction differs from XmlOf for a program")
    return items


def cached_items(tier="quick"):
    return tlc.run("XmlGen", "XmlGen_%s.cfg" % tier, workers=1, timeout=1500).tr("PROG")


def run(ctx):
    thorough = ctx.tier == "thorough"
    from concurrent.futures import ThreadPoolExecutor
    sws = (("decl", "NoElementMoved"), ("elsew", "Mirrors"), ("exattr", "NeverRaises"))
    with ThreadPoolExecutor(3) as ex:
        main = ex.submit(tlc.run, "XmlGen", "XmlGen_thorough.cfg" if thorough else "XmlGen_quick.cfg", workers=1, timeout=1500)
        futs = [(sw, inv, ex.submit(tlc.run, "XmlGen", "XmlGen_asbuilt_%s.cfg" % sw, workers=1)) for sw, inv in sws]
        cex = {}
        for sw, inv, f in futs:
            r = f.result()
            ctx.add_tlc(r, "as-built switch %s: counterexample expected" % sw)
            if inv not in r.violated:
                raise MachineryError("as-built switch %s: TLC did not report a violation of %s (got %s)" % (sw, inv, r.violated))
            cex[sw] = r.violated
        items = tlc_items(ctx, main.result(), "intended switches, %s family: invariants + PROG lines" % ctx.tier)
    ctx.extra["asbuilt_counterexamples"] = cex
    results = pmap(work, items)
    by_tag, by_obs, ab_agree = {}, {}, 0
    for it, out in zip(items, results):
        ctx.programs += 1
        for t in it["tags"]:
            by_tag[t] = by_tag.get(t, 0) + 1
        for c in out["compared"]:
            by_obs[c] = by_obs.get(c, 0) + 1
        for dk in out["drift"]:
            ctx.note_drift(dk)
        if not any(d.startswith("as-built") for d in out["drift"]):
            ab_agree += 1
        for rec in out["recs"]:
            ctx.violation(rec, {"item": it})
        if not out["recs"] and "xml_text" in out["obs"] and it["prog"]["fam"] in ("expr", "when", "bool"):
            ctx.sample({"modelica": out["obs"]["text"], "xml_equations": out["obs"]["xml_text"][out["obs"]["xml_text"].find("<equation>"):][:700]}, limit=3)
    for t in ("expr", "bool", "comp", "comp2", "declit", "two-prefixes", "flow", "when", "decl-eq", "elsewhen", "attr-expr", "bool-attr"):
        if not by_tag.get(t):
            raise MachineryError("vacuous: no program with tag %s" % t)
    for o in ("generate", "well-formed", "component", "equation"):
        if by_obs.get(o, 0) < 100:
            raise MachineryError("vacuous: observable %s compared on %d programs only" % (o, by_obs.get(o, 0)))
    # binding self-test: corrupted expectations must be reported
    good = [(it, out) for it, out in zip(items, results) if not out["recs"] and it["prog"]["fam"] == "expr"][:5]
    caught = 0
    for it, _ in good:
        b1 = json.loads(json.dumps(it))
        kids = b1["expect"]["eqs"][0]["kids"]
        kids[0], kids[1] = kids[1], kids[0]                    # operand order
        b2 = json.loads(json.dumps(it))
        b2["expect"]["comps"][0]["variability"] = "parameter"
        if any(r["observable"] == "equation" for r in work(b1)["recs"]) and any(r["observable"] == "component" for r in work(b2)["recs"]):
            caught += 1
    if not good or caught < len(good):
        raise MachineryError("binding self-test: corrupted expectations not all reported (%d of %d)" % (caught, len(good)))
    ctx.extra["programs_by_tag"] = by_tag
    ctx.extra["observable_compared_on_programs"] = by_obs
    ctx.extra["programs_where_code_equals_asbuilt_model"] = ab_agree
    ctx.extra["binding_selftest_corruptions_caught"] = caught
    ctx.assumptions += ["a Boolean literal may be spelled <true/>/<false/> or value=\"True\"/\"False\"",
                        "a component without variability attribute is continuous",
                        "start/value given by non-literal expressions are not compared (the property names literal start/value)"]
    return {"exhaustive": True, "explanation": "every program TLC enumerated for the family was replayed through the real generator"}


def replay(ctx, sc):
    return work(sc["item"])["recs"]
