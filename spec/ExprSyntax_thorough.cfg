\* thorough tier: every tree with <= 3 operator nodes over the full operator set (sliced over several TLC runs)
CONSTANTS
  FullOps <- OpsAll
  MaxFull = 3
  RepOps <- OpsNone
  MaxRep = 3
  Variants = {"full", "red", "lits", "mixed", "elseif"}
  Literals = TRUE
  Fuel = 4
  BrkLimit = 14
  RedUpTo = 3
INIT Init
NEXT Next
ACTION_CONSTRAINT Emit
INVARIANT RoundTrip
INVARIANT ValuePreserved
INVARIANT ReadIsABracketing
INVARIANT PrintInjective
INVARIANT WellTyped
INVARIANT Distinguished
INVARIANT LiteralValue
INVARIANT ValuesWellFormed
CHECK_DEADLOCK FALSE
