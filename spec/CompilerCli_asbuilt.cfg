\* as-built (pinned tree): EXPECTED TO FAIL StatusIsCount / NeverCrashes
CONSTANTS MaxDev = 2  SampleDev = 9  MaxPaths = 2  MaxModels = 2  MaxOpts = 2
          CliCountsTranslateFailures = FALSE  CliCatchesTranslateErrors = FALSE  CliCountsMissingModelFile = FALSE
          Emit = FALSE  NParts <- NPartsEnv  Part <- PartEnv
INIT Init
NEXT Next
INVARIANT StatusIsCount
INVARIANT NeverCrashes
INVARIANT NoWorkAfterUsageError
INVARIANT SumOfSingles
PROPERTY ErrorsMonotone
PROPERTY PerModelIndependent
CHECK_DEADLOCK FALSE
