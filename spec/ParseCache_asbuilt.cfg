\* as-built (pinned code): TLC is expected to report ResultIsFresh violated
CONSTANTS GoodTexts = {"g1"} BadTexts = {"b1"} Versions = {"v1","v2"} MaxDay = 1 ExpChoices = {1,30}
  MaxOps = 1000000 InitedSkipsChecks = TRUE CatchesOnlyUnpickling = TRUE FaultsIncludeRemoval = FALSE
INIT Init
NEXT Next
VIEW View
INVARIANT TypeOK
PROPERTY ResultIsFresh
PROPERTY NeverRaises
INVARIANT NoneNeverStored
PROPERTY RowsOnlyLeaveWhenExpiredOrLost
CHECK_DEADLOCK FALSE
