\* one-level family with three components (6 inside + 2 outside connectors)
CONSTANTS NComp = 3  MaxLen = 4  MaxSub = 0  WithLeaf = FALSE
          Layouts <- LayoutsPF
          AllowSelf = TRUE  Emit = TRUE
          FullLen = 3  NParts <- NPartsEnv  Part <- PartEnv
          ZeroIfNotConnectedAsInside = FALSE
INIT Init
NEXT Next
INVARIANT DictsAreComponents
INVARIANT RowsPure
INVARIANT SameSolutionsGeneric
INVARIANT SameSolutionsStructural
INVARIANT EquationCount
CHECK_DEADLOCK FALSE
