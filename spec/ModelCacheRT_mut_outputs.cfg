\* mutation: outputs not restored - RoundTrip must FAIL
CONSTANTS XKinds = {"lit"}
          YKinds = {"none"}
          Aliases = {"none"}
          Delays = {"none"}
          Opts = {"base"}
          Typed = {FALSE}
          Strs = {FALSE}
          Outs = {TRUE}
          SwapDepClasses = FALSE
          ForgetOutputs = TRUE
          DurDepsOffByOne = FALSE
INIT Init
NEXT Next
INVARIANT RoundTrip
INVARIANT NoMXPickled
CHECK_DEADLOCK FALSE
