\* C20 intended: all four option sets, both modes, two versions, held library handles
CONSTANTS K = 2
          Editable = {"M"}
          Addable = {}
          OptNames = {"O1","O2","O3","O4","O5","O6"}
          Modes = {"cache","codegen"}
          Versions = {1,2}
          Holds = {TRUE,FALSE}
          MaxClock = 1000000
          LibFoldersInKey = TRUE
          Beyond = {}
          OptionValuesCompared = TRUE
          FreshLibHandles = TRUE
INIT Init
NEXT Next
VIEW View
INVARIANT TypeOK
INVARIANT ClockInv
INVARIANT ResultIsFresh
PROPERTY ResultIsFreshAct
INVARIANT HitImpliesFresh
PROPERTY EditInvalidates
PROPERTY TransferLeavesValidCache
PROPERTY HitIsReadOnly
CHECK_DEADLOCK FALSE
