\* graph: sequential crash-point histories, codegen mode (4 libraries), as the code is now (repaired)
CONSTANTS Procs = {"p1","p2"}
          DiffOpts = TRUE
          Codegen = TRUE
          N = 2
          NL = 4
          MaxCrashes = 1
          Inits = {"none","o1"}
          Sequential = TRUE
          AtomicWrite = TRUE
          CatchUnpickle = TRUE
          UniqueLibs = TRUE
          CatchLibError = TRUE
INIT Init
NEXT Next
ACTION_CONSTRAINT Log
CHECK_DEADLOCK FALSE
