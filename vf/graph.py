"""Labelled transition system rebuilt from a TLC TR-log, and path generators.

A TR-log entry is {"src": state, "act": {...}, "dst": state}.  States are
compared by their canonical JSON text.
"""
import json
import random
from collections import deque


def key(x):
    return json.dumps(x, sort_keys=True, separators=(",", ":"))


class Graph:
    def __init__(self, entries, init=None):
        self.states = {}     # key -> state
        self.out = {}        # key -> list of edge ids
        self.edges = []      # (srckey, act, dstkey)
        seen = set()
        for e in entries:
            s, d = key(e["src"]), key(e["dst"])
            ek = (s, key(e["act"]), d)
            if ek in seen:
                continue
            seen.add(ek)
            self.states.setdefault(s, e["src"])
            self.states.setdefault(d, e["dst"])
            self.out.setdefault(s, []).append(len(self.edges))
            self.out.setdefault(d, [])
            self.edges.append((s, e["act"], d))
        if init is not None:
            self.inits = [key(i) for i in init]
            for i in init:
                self.states.setdefault(key(i), i)
                self.out.setdefault(key(i), [])
        else:
            # states that are never a destination of an edge from another state, or the first src
            self.inits = [self.edges[0][0]] if self.edges else []

    def n_states(self):
        return len(self.states)

    def n_edges(self):
        return len(self.edges)

    def _bfs_to_uncovered(self, start, covered):
        """shortest edge-path from start to (and including) an uncovered edge."""
        prev = {start: None}
        q = deque([start])
        while q:
            s = q.popleft()
            for ei in self.out[s]:
                if ei not in covered:
                    path = [ei]
                    while prev[s] is not None:
                        s, pe = prev[s]
                        path.append(pe)
                    path.reverse()
                    return path
            for ei in self.out[s]:
                d = self.edges[ei][2]
                if d not in prev:
                    prev[d] = (s, ei)
                    q.append(d)
        return None

    def tour(self, max_len=40, rng=None):
        """Paths (lists of edge ids) from an initial state that together cover every edge
        reachable from the initial states.  Each path is at most max_len long unless a
        single shortest approach needs more."""
        covered = set()
        paths = []
        for init in self.inits:
            while True:
                cur = init
                path = []
                progressed = False
                while len(path) < max_len:
                    seg = self._bfs_to_uncovered(cur, covered)
                    if seg is None:
                        break
                    if path and len(path) + len(seg) > max_len:
                        break
                    for ei in seg:
                        path.append(ei)
                        covered.add(ei)
                    progressed = True
                    cur = self.edges[path[-1]][2]
                if not progressed:
                    break
                paths.append(path)
        return paths, covered

    def all_paths(self, depth, limit=200000):
        """every path of length <= depth from the initial states that cannot be extended
        (maximal) or has length == depth."""
        res = []
        for init in self.inits:
            stack = [(init, [])]
            while stack:
                s, p = stack.pop()
                outs = self.out[s]
                if len(p) == depth or not outs:
                    if p:
                        res.append(p)
                    if len(res) >= limit:
                        return res
                    continue
                for ei in outs:
                    stack.append((self.edges[ei][2], p + [ei]))
        return res

    def random_walks(self, n, length, seed):
        rng = random.Random(seed)
        res = []
        for _ in range(n):
            s = rng.choice(self.inits)
            p = []
            for _ in range(length):
                outs = self.out[s]
                if not outs:
                    break
                ei = rng.choice(outs)
                p.append(ei)
                s = self.edges[ei][2]
            if p:
                res.append(p)
        return res

    def steps(self, path):
        """[(src_state, act, dst_state)] for a path of edge ids."""
        return [(self.states[self.edges[e][0]], self.edges[e][1], self.states[self.edges[e][2]]) for e in path]
