\* graph: all option sets and versions
CONSTANTS K = 2
          Editable = {"M"}
          Addable = {}
          OptNames = {"O1","O2","O3","O4"}
          Modes = {"cache"}
          Versions = {1,2}
          Holds = {FALSE}
          MaxClock = 1000000
          LibFoldersInKey = TRUE
          Beyond = {}
          OptionValuesCompared = TRUE
          FreshLibHandles = TRUE
INIT Init
NEXT Next
VIEW View
ACTION_CONSTRAINT Log
CHECK_DEADLOCK FALSE
