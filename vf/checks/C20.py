"""C20 - The model cache is never used when stale.

Spec: spec/ModelCache.tla
  * TLC checks, for the intended variant, that every Transfer returns the compile of the current
    sources under the current options (ResultIsFresh), the state invariant behind it
    (HitImpliesFresh) and three action properties, on the true state space with the explicit
    clock and on larger quotients (mtimes only through "newer than the cache").
  * the as-built variant (library_folders not compared, dlopen keyed by path) is expected to
    violate ResultIsFresh.
Binding A: the complete transition graphs of the as-built variant (several small configurations)
  are replayed on real folders: content ids become Modelica texts whose ids are visible in the
  compiled model, the logical clock drives os.utime of sources and cache file, the version is
  swapped in api.__version__.  After EVERY transfer step the returned model is compared with a
  fresh _compile_model of the current sources and options (the property's observable); what the
  spec predicts (hit/miss, which content the returned model shows) is compared as drift.
"""
import gc
import json
import os
import shutil
import tempfile
from concurrent.futures import ThreadPoolExecutor

from vf import tlc, graph, par
from vf import mc_common as mc
from vf.core import MachineryError, exc_record

META = {
    "ready": True,
    "category": "model_checking",
    "technique": "TLA+ spec (ModelCache.tla) of files/mtimes/cache file/shared libraries/options/version model-checked by TLC; every transition of its state graphs replayed on real folders through transfer_model with a differential oracle (fresh compile)",
    "text": "TLC checks ResultIsFresh / HitImpliesFresh / EditInvalidates / TransferLeavesValidCache / HitIsReadOnly for all histories of edit, add, option change, version change, transfer(cache|codegen), release over 5 files in 3 folders, 6 option sets (simplification option, expand_vectors, library_folders only, and two that differ only in the value of the non-boolean eliminable_variable_expression), 2 versions (state spaces of 5e3..5e5 states, quotient by 'newer than the cache'); the complete transition graphs of the variant that describes the current code are replayed (transition tour + random walks of length 40) against transfer_model on real temp folders with os.utime driven by the spec's logical clock, and after every transfer the returned model (names, order, types, attributes at 3 parameter vectors, aliases, 4 functions at integer points) is compared with a fresh compile of the current sources and options.",
    "note": "Trusted: TLC, the Modelica texts that make content ids visible, the projection/comparison code in vf/mc_common.py. Not covered: deleted files, mtime_check=False, edits whose mtime is not later than the cache (outside the property's premise), symlinked folders, edits that happen while a transfer is running. Codegen transitions: a small graph in quick, the cache+codegen graph in thorough.",
    "design_ref": "DESIGN.md section 3, C20",
}

QUICK_CHECKS = ["clock", "intended_q", "intended_cg_q", "intended_eve"]
REGRESSIONS = ["asbuilt_opts", "mut_truthy"]         # earlier / seeded behaviour: expected to violate ResultIsFresh
BEYOND = ["beyond_backdated", "beyond_split"]        # expected to violate ResultIsFresh (outside the premise)
THOROUGH_CHECKS = QUICK_CHECKS + ["intended_files", "intended_opts", "intended_codegen"]
QUICK_GRAPHS = ["g_mtime", "g_sub", "g_libs", "g_opts", "g_eve", "g_codegen_q"]
THOROUGH_GRAPHS = QUICK_GRAPHS + ["g_codegen", "g_big"]
INIT_FILES = {"M": 1, "L1": 1, "L2": 1}


def procs():
    return max(1, min(8, int(os.environ.get("VERIF_PROCS", "8"))))


# ---------------------------------------------------------------------------------------------
# spec state -> what the harness can read off a real model
# ---------------------------------------------------------------------------------------------
def ids_of(am):
    """abstract model of the spec -> ids as mc.residual_ids / mc.decode report them"""
    s = am["src"]
    lib = s["L1"] if s["L1"] else (50 + s["L2"] if s["L2"] else 0)
    return {"M": s["M"], "L": lib, "T": 10 + s["A"] if s["A"] else 0, "U": 10 + s["S"] if s["S"] else 0,
            "simp": am["simp"], "ev": am["ev"], "eve": am.get("eve", "none"), "by": am.get("by", 1)}


_fresh_memo = {}


def fresh_projection(sb, oname, mode, version):
    key = sb.fresh_key(oname, mode) + "@%s" % version
    mc.api().__version__ = "verif-%d" % version
    if key not in _fresh_memo:
        try:
            _fresh_memo[key] = mc.project(sb.fresh(oname, mode))
        except Exception as e:
            raise MachineryError("reference compile failed for %s: %r" % (key[:200], e))
    return _fresh_memo[key]


def run_history(sc):
    """Replay one history on real folders.  sc = {"acts": [...], "backdate": bool (self-test only)}
    -> {"records": [...], "drift": {kind: n}, "stats": {...}}"""
    xdg = os.environ.get("VF_MC_SCRATCH")
    sb = mc.Sandbox(INIT_FILES)
    if xdg:
        d = os.path.join(xdg, "xdg_%d" % os.getpid())
        os.makedirs(d, exist_ok=True)
        os.environ["XDG_CACHE_HOME"] = d
    recs, drift, stats = [], {}, {"hit": 0, "miss": 0, "steps": 0, "stale_predicted": 0}
    oname, version = "O1", 1
    held = []
    since = set()
    pending = None

    def note(kind):
        drift[kind] = drift.get(kind, 0) + 1
    try:
        for k, act in enumerate(sc["acts"]):
            a = act["act"]
            stats["steps"] += 1
            stats[a] = stats.get(a, 0) + 1
            if a == "transfer_begin":
                pending = {"mode": act["mode"], "edits": []}
            elif a in ("edit", "add") and pending is not None:
                pending["edits"].append(act)           # happens while the compile is running
            elif a == "transfer_end":
                api_ = mc.api()
                real_save = api_.save_model
                todo = pending["edits"]

                def save_after_edits(*x, **kw):
                    for e in todo:
                        sb.edit(e["f"], e["k"])
                    return real_save(*x, **kw)
                api_.save_model = save_after_edits
                try:
                    sb.transfer(oname, pending["mode"], version="verif-%d" % version)
                finally:
                    api_.save_model = real_save
                pending = None
            elif a in ("edit", "add"):
                if sc.get("backdate"):
                    sb.write(act["f"], act["k"], 0)      # self-test: an edit that does NOT get a later mtime
                else:
                    sb.edit(act["f"], act["k"])
                since.add(a)
            elif a == "options":
                since.add("options")
                oname = act["o"]
            elif a == "version":
                since.add("version")
                version = act["v"]
            elif a == "release":
                del held[:]
                gc.collect()
            elif a == "transfer":
                mode = act["mode"]
                model = None
                try:
                    model = sb.transfer(oname, mode, version="verif-%d" % version)
                except MachineryError:
                    raise
                except Exception as e:
                    r = exc_record(e)
                    r.update(observable="exception", tags=sorted([mode] + ["dev:" + d for d in act.get("dev", [])]), step=k)
                    recs.append(r)
                    return {"records": recs, "drift": drift, "stats": stats}
                hit = type(model).__name__ == "CachedModel"
                stats["hit" if hit else "miss"] += 1
                got = mc.project(model)
                ref = fresh_projection(sb, oname, mode, version)
                bad, dr = mc.compare(ref, got)
                for d in dr:
                    note(d[0])
                if act.get("dev"):
                    stats["stale_predicted"] += 1
                if bad:
                    tags = sorted([mode, "hit" if hit else "miss"] + ["dev:" + d for d in act.get("dev", [])]
                                  + (["unpredicted"] if not act.get("dev") else []))
                    recs.append({"observable": "stale-model", "tags": tags, "exception_type": None, "step": k,
                                 "detail": "step %d transfer(%s) under %s v%d after %s returned a %s model that differs from a fresh compile in %s: %s" % (
                                     k, mode, oname, version, sorted(since) or "nothing", "cached" if hit else "compiled",
                                     sorted({b[0] for b in bad}), "; ".join(b[1] for b in bad[:3]))[:900]})
                # what the spec predicts (auxiliary: drift only)
                if "hit" in act:
                    if act["hit"] != hit:
                        note("hit-miss")
                    want_v, want_f = ids_of(act["ret"]["vars"]), ids_of(act["ret"]["funs"])
                    dv = mc.decode(got)["vars"]
                    if dv != want_v:
                        note("returned-vars-content")
                    df = mc.residual_ids(model)
                    if any(df[x] != want_f[x] for x in ("M", "L", "T", "U")):
                        note("returned-funs-content")
                    if bool(bad) != bool(act.get("dev")):
                        note("stale-prediction")
                if act.get("hold"):
                    held.append(model)
                model = None
                if mode == "codegen":
                    gc.collect()
                since = set()
            else:
                raise MachineryError("unknown action %r" % (act,))
    finally:
        del held[:]
        gc.collect()
        sb.close()
    return {"records": recs, "drift": drift, "stats": stats}


def _acts_of(g, path):
    acts = []
    for (_s, a, _d) in g.steps(path):
        acts.append(a)
    return acts


def _run_tlc(job):
    cfg, workers = job
    return cfg, tlc.run("ModelCache", "ModelCache_%s.cfg" % cfg, workers=workers, timeout=1500)


def run(ctx):
    thorough = ctx.tier == "thorough"
    checks = THOROUGH_CHECKS if thorough else QUICK_CHECKS
    graphs = THOROUGH_GRAPHS if thorough else QUICK_GRAPHS
    import time
    t0 = time.time()
    jobs = [(c, 4 if thorough else 2) for c in checks] + [(c, 1) for c in REGRESSIONS] + [(c, 1) for c in (BEYOND if thorough else [])] + [(gname, 1) for gname in graphs]
    with ThreadPoolExecutor(4) as ex:
        results = dict(ex.map(_run_tlc, jobs))
    ctx.extra["wall_tlc_s"] = round(time.time() - t0, 1)
    t0 = time.time()
    # 1. the intended spec satisfies the property
    for c in checks:
        r = results[c]
        ctx.add_tlc(r, "intended variant: ResultIsFresh, HitImpliesFresh, EditInvalidates, TransferLeavesValidCache, HitIsReadOnly (%s)" % c)
        if r.violated:
            raise MachineryError("spec ModelCache (%s) violates %s - spec bug" % (c, r.violated))
    # 2. the as-built variant must exhibit the stale hit
    for c in REGRESSIONS:
        r = results[c]
        ctx.add_tlc(r, "regression variant %s (behaviour before the repairs / truthiness-only option comparison), expected to violate ResultIsFresh" % c)
        ctx.extra.setdefault("regression_variants_violate", {})[c] = r.violated
        if not any("ResultIsFresh" in v for v in r.violated):
            raise MachineryError("regression variant %s no longer violates ResultIsFresh: switches and cfg out of step" % c)
    for c in (BEYOND if thorough else []):
        r = results[c]
        ctx.add_tlc(r, "outside the premise (%s), expected to violate ResultIsFresh" % c)
        if not any("ResultIsFresh" in v for v in r.violated):
            raise MachineryError("%s no longer violates ResultIsFresh" % c)
    # 3. replay the as-built transition graphs
    scratch = tempfile.mkdtemp(prefix="vfc20_")
    os.environ["VF_MC_SCRATCH"] = scratch
    try:
        scenarios = []
        ginfo = {}
        for gname in graphs:
            r = results[gname]
            ctx.add_tlc(r, "state graph with TR-log (%s)" % gname)
            g = graph.Graph(r.tr())
            if not g.n_edges():
                raise MachineryError("empty TR-log for %s" % gname)
            paths, covered = g.tour(max_len=30)
            if len(covered) != g.n_edges():
                raise MachineryError("%s: tour covered %d of %d transitions" % (gname, len(covered), g.n_edges()))
            heavy = "codegen" in gname
            walks = g.random_walks((8 if heavy else 60) if thorough else (2 if heavy else 6), 20 if heavy else 40, ctx.seed + 20)
            for kind, plist in (("tour", paths), ("walk", walks)):
                for p in plist:
                    scenarios.append({"graph": gname, "kind": kind, "acts": _acts_of(g, p)})
            ginfo[gname] = {"states": g.n_states(), "transitions": g.n_edges(), "tour_paths": len(paths),
                            "random_walks": len(walks)}
        # expensive (codegen) scenarios first, one scenario per task, so the pool stays balanced
        scenarios.sort(key=lambda sc: -sum(3 if a.get("mode") == "codegen" and not a.get("hit") else 0 for a in sc["acts"]) - len(sc["acts"]) / 100.0)
        outs = par.pmap(run_history, scenarios, procs(), chunksize=1)
        ctx.extra["wall_replay_s"] = round(time.time() - t0, 1)
        print("C20 timing: tlc %.0fs (%d runs, 4 at a time), replay of %d histories %.0fs on %d procs" % (
            ctx.extra["wall_tlc_s"], len(jobs), len(scenarios), ctx.extra["wall_replay_s"], procs()), flush=True)
        totals, drift_tot = {}, {}
        for sc, out in zip(scenarios, outs):
            ctx.traces += 1
            for kx, v in out["stats"].items():
                totals[kx] = totals.get(kx, 0) + v
            for kx, v in out["drift"].items():
                ctx.note_drift(kx, v)
            for rec in out["records"]:
                ctx.violation(rec, {"acts": sc["acts"][:rec["step"] + 1]})
        for sc in scenarios[:2]:
            ctx.sample({"graph": sc["graph"], "kind": sc["kind"],
                        "history": [{k: v for k, v in a.items() if k not in ("ret", "fresh")} for a in sc["acts"][:8]]})
        # vacuity
        for a in ("edit", "add", "options", "version", "transfer", "release", "hit", "miss"):
            if not totals.get(a):
                raise MachineryError("vacuous: %s never replayed" % a)
        # 4. binding self-test: an edit WITHOUT a later mtime legitimately yields a stale hit; the
        #    differential comparison must see it (otherwise the observation is blind)
        st = run_history({"acts": [{"act": "transfer", "mode": "cache"}, {"act": "edit", "f": "M", "k": 2},
                                   {"act": "transfer", "mode": "cache"}], "backdate": True})
        if not any(r["observable"] == "stale-model" for r in st["records"]):
            raise MachineryError("binding self-test failed: a deliberately stale cache hit was not noticed")
        st = run_history({"acts": [{"act": "transfer", "mode": "cache"}, {"act": "edit", "f": "L1", "k": 2},
                                   {"act": "transfer", "mode": "cache"}], "backdate": True})
        if not any(r["observable"] == "stale-model" for r in st["records"]):
            raise MachineryError("binding self-test failed: a deliberately stale cache hit (library file) was not noticed")
        # outside the premise (spec: Beyond = {"backdated"} / {"split"}): confirm on the code that the spec is right
        # about where the guarantee ends.  Observations only - never a violation of C20.
        beyond = {"backdated": "stale hit reproduced on the code (an edit that keeps an old mtime)"}
        st = run_history({"acts": [{"act": "transfer_begin", "mode": "cache"}, {"act": "add", "f": "A", "k": 1},
                                   {"act": "transfer_end"}, {"act": "transfer", "mode": "cache"}]})
        beyond["split"] = ("stale hit reproduced on the code: a file added while transfer_model was compiling is older than the cache file written afterwards"
                           if any(r["observable"] == "stale-model" for r in st["records"]) else "not reproduced on the code")
        ctx.extra["beyond_premise"] = beyond
        ctx.extra["graphs"] = ginfo
        ctx.extra["replayed"] = totals
    finally:
        shutil.rmtree(scratch, ignore_errors=True)
        os.environ.pop("VF_MC_SCRATCH", None)
    ctx.assumptions += ["every edit/addition gets an mtime later than anything before (the property's premise); mtimes of sources and of the cache file are set with os.utime from one logical clock",
                        "pymoca version changes are made by assigning pymoca.backends.casadi.api.__version__",
                        "the reference is _compile_model on the same folders with the options normalised as transfer_model does"]
    return {"exhaustive": True}


def replay(ctx, sc):
    scratch = tempfile.mkdtemp(prefix="vfc20_")
    os.environ["VF_MC_SCRATCH"] = scratch
    try:
        out = run_history(sc)
    finally:
        shutil.rmtree(scratch, ignore_errors=True)
        os.environ.pop("VF_MC_SCRATCH", None)
    return out["records"]
