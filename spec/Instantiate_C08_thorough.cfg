\* C08 thorough: modification family to depth 3
CONSTANTS Family = "mods" MaxDepth = 3 Wide = FALSE
 DottedAttrAsValue = FALSE InnerArgsLoseScope = FALSE ReRenameFlatRefs = FALSE AliasOfAliasDropsMods = FALSE InheritedTypeInDerivedScope = FALSE
INIT Init
NEXT Next
VIEW View
CHECK_DEADLOCK FALSE
PROPERTY PhaseOrder
INVARIANT DeclIgnoresSpelling
INVARIANT OpEqualsDecl
INVARIANT SpellingInvariance
INVARIANT OneVariablePerLeaf
INVARIANT CanonicalAccepted
INVARIANT ModsArriveInOrder
INVARIANT NothingPending
