\* as-built spec (switches as the pinned code behaves): violations are EXPECTED; every one is printed as a
\* CEX line and replayed on the real code by the harness
CONSTANTS Family = "directed" OptMode = "directed" ConstValuesResolved = FALSE OldAliasSignStripped = FALSE
          PrintProg = FALSE PrintFin = FALSE PrintCex = TRUE
INIT Init
NEXT Next
VIEW View
ACTION_CONSTRAINT Log
INVARIANT TypeOK
CHECK_DEADLOCK FALSE
