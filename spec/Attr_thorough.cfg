\* C13 family (thorough): attribute expressions x variable kinds; invariants = the property on the model of the generator
CONSTANTS Tier = "thorough"
INIT Init
NEXT Next
INVARIANT WellShaped
INVARIANT MetaAgrees
INVARIANT TypesKept
INVARIANT AffineSound
CHECK_DEADLOCK FALSE
