"""C06 - Deep copies of a tree are independent of the original.

Spec: spec/ClassTreeCopy.tla (+ ClassTreeCopyTrace.tla)
  value semantics (property side) and pointer semantics (parent pointers as object ids, per-object
  __deepcopy__ hook source) side by side; invariant PointerSemanticsIsValueSemantics, ParentClosed,
  action properties Independence and CopyFaithful.  Intended cfg passes; as-built cfg (parents not
  rebound, hook bound to the original) must produce a counterexample.
Binding A: the complete intended state graph (quotient by the value state) is replayed on real
  ast.Tree objects with copy.deepcopy and the ast.Class add/remove API; after EVERY step every class of
  every live tree is flattened (on a pickle snapshot, so the observation itself does not disturb the
  trees) and the flat symbol / equation sets are compared with the spec's.  Every shortest history on
  which the as-built pointer semantics first deviates (TLC DEV log) is replayed as a directed scenario.
  At the end of a history: full flatten JSON, sympy and xml output of every class of every tree against
  an uncopied reference tree (fresh parse + the same edits), and a flatten pass on the live trees.
  A deviation seen on the real code is evaluated by TLC under the as-built switches
  (ClassTreeCopyTrace): only if the as-built model predicts exactly what was observed does the
  narrow known finding apply.
"""
import copy
import json
import os
import pickle
import tempfile

from vf import tlc, graph, classtree as ct
from vf.core import MachineryError, exc_record
from vf.par import pmap

META = {
    "ready": True,
    "category": "model_checking",
    "technique": "TLA+ spec (ClassTreeCopy.tla): value semantics vs. pointer semantics with explicit parent pointers and "
                 "deepcopy-hook sources, model-checked by TLC (intended / as-built); every transition of the intended state "
                 "graph, random walks and every shortest as-built deviation replayed on real ast trees "
                 "(copy.deepcopy + add/remove API), all classes of all trees flattened after every step; deviations "
                 "classified by TLC evaluating the same history under the as-built switches (ClassTreeCopyTrace.tla)",
    "text": "TLC checks that the pointer-shaped semantics (Class._find_class through parent pointers, find_class copies, "
            "deepcopy hooks) equals the value semantics for every class of every tree, that parents stay inside their "
            "tree, and the action properties Independence / CopyFaithful, for all histories <= 4 over <= 3 trees; the "
            "as-built switches must yield a counterexample. The complete value-state graph (3 trees) is replayed on real "
            "trees: after every deepcopy / add / remove of class, symbol, equation all classes of all live trees are "
            "flattened and compared with the spec; at history end full flatten JSON, sympy and xml output are compared "
            "with an uncopied reference tree.",
    "note": "Trusted: TLC, the adapter (~80 lines) that maps spec actions to copy.deepcopy / ast.Class.add_* / remove_* calls, "
            "pickle as a faithful snapshot of the object graph (observations are made on snapshots so that C05's in-place "
            "flatten does not leak into this check). Library fixed to Leaf / Mid(has Leaf) / Top(extends Mid), edits: one "
            "extra symbol per class, one extra equation on Leaf and Top, remove/re-add class Leaf; <= 3 trees; random walks "
            "to length 25.",
    "design_ref": "DESIGN.md section 3, C06",
}

TEXTS = {
    "flat": '''
function f input Real u; output Real v; algorithm v := 2 * u; end f;
model Base Real w0; end Base;
model Leaf Real x; end Leaf;
model Mid extends Base; Leaf l; Real y; equation y = f(l.x) "Mid0"; end Mid;
model Top extends Mid; Bare b; Real z; equation z = y "Top0"; end Top;
model Bare end Bare;
''',
    # several packages: Comp is not visible from Q.D (inherited component), package R comes after its users
    "pkg": '''
package P
  model Comp R.Inner i; Real u; end Comp;
  model Base Comp c; Real w; end Base;
end P;
package Q
  model D extends P.Base; Real d; end D;
end Q;
package R
  model Inner Real x; equation x = 1 "In0"; end Inner;
  model Holder Inner h; end Holder;
  model Special extends Inner; Real sp; end Special;
end R;
''',
}
TEXT = TEXTS["flat"]
# equations that the edits add are taken from a freshly parsed donor class (E1 calls the user function f)
DONOR = '''
model Donor Real x; equation x = f(2.0) "E1"; x = 7 "E2"; x = 9 "E9"; initial equation x = 0 "I1"; end Donor;
'''
CLASSES_OF = {"flat": ["f", "Base", "Leaf", "Mid", "Top", "Bare"],
              "pkg": ["P.Comp", "P.Base", "Q.D", "R.Inner", "R.Holder", "R.Special"]}
EXPLAINS, NOT_EXPLAINS = "asbuilt:explains", "asbuilt:does-not-explain"
DEV_HERE, SAME_HERE = "asbuilt:deviates-here", "asbuilt:same-here"


def flatten_copies_top():
    """does tree.flatten work on a copy of the requested class (C05 fixed) or in place (pinned tree)?"""
    from pymoca import ast, tree
    t = ct.fresh_tree(TEXT)
    tree.flatten(t, ast.ComponentRef(name="Mid"))
    return isinstance(t.classes["Mid"].symbols["l"].type, ast.ComponentRef)


def _variant():
    return "_topcopy" if flatten_copies_top() else ""


# ---------------------------------------------------------------------------------------------
def get_node(tree, qualified):
    n = tree
    for part in qualified.split("."):
        n = n.classes[part]
    return n


def lib_of(acts):
    for a in acts:
        if "c" in a:
            return "pkg" if a["c"] in CLASSES_OF["pkg"] else "flat"
    return "flat"


class Adapter:
    def __init__(self, lib="flat"):
        self.lib = lib
        self.classes = CLASSES_OF[lib]
        self.trees = [ct.fresh_tree(TEXTS[lib])]
        self.lineage = [[]]

    def edit(self, tree, act):
        """one AST-API call on `tree` (spec action -> real call)"""
        from pymoca import ast
        a = act["act"]
        box_path, _, short = act["c"].rpartition(".")
        if a == "add_class":
            donor = ct.fresh_tree(TEXTS[self.lib])
            dbox = get_node(donor, box_path) if box_path else donor
            c = dbox.classes[short]
            dbox.remove_class(c)
            (get_node(tree, box_path) if box_path else tree).add_class(c)
            return
        cls = get_node(tree, act["c"])
        if a == "remove_class":
            (get_node(tree, box_path) if box_path else tree).remove_class(cls)
        elif a == "add_symbol":
            cls.add_symbol(ast.Symbol(name=act["s"], type=ast.ComponentRef(name="Real")))
        elif a == "remove_symbol":
            cls.remove_symbol(cls.symbols[act["s"]])
        elif a == "add_equation":
            cls.add_equation(donor_equation(act["e"]))
        elif a == "remove_equation":
            eqs = [e for e in cls.equations if e.comment == act["e"]]
            if not eqs:
                raise LookupError("equation %s is not in class %s of this tree" % (act["e"], act["c"]))
            cls.remove_equation(eqs[0])
        elif a == "add_initial_equation":
            cls.add_initial_equation(donor_equation(act["e"]))
        elif a == "remove_initial_equation":
            eqs = [e for e in cls.initial_equations if e.comment == act["e"]]
            if not eqs:
                raise LookupError("initial equation %s is not in class %s of this tree" % (act["e"], act["c"]))
            cls.remove_initial_equation(eqs[0])
        else:
            raise MachineryError("unknown action %r" % (act,))

    def apply(self, act):
        """returns the observation of a live flatten, else None"""
        if act["act"] == "deepcopy":
            self.trees.append(copy.deepcopy(self.trees[act["i"] - 1]))
            self.lineage.append(list(self.lineage[act["i"] - 1]))
        elif act["act"] == "flatten":
            return flat_obs(self.trees[act["i"] - 1], act["c"])      # on the LIVE tree, not on a snapshot
        else:
            self.lineage[act["i"] - 1].append(act)       # what the user believes this tree now contains
            self.edit(self.trees[act["i"] - 1], act)
        return None

    def snapshot(self):
        return pickle.loads(pickle.dumps(self.trees))

    def reference(self, i):
        """tree i as it has to be: fresh parse + the edits of its lineage, no copy involved"""
        t = ct.fresh_tree(TEXTS[self.lib])
        for a in self.lineage[i]:
            self.edit(t, a)
        return t

    def observe(self, trees=None):
        trees = self.snapshot() if trees is None else trees
        return [{c: flat_obs(t, c) for c in self.classes} for t in trees]

    def parents(self):
        out = []
        for t in self.trees:
            d = {}
            for c in self.classes:
                box_path, _, short = c.rpartition(".")
                try:
                    box = get_node(t, box_path) if box_path else t
                    k = box.classes[short]
                except KeyError:
                    continue
                d[c] = "own" if k.parent is box else "none" if k.parent is None else "foreign"
            out.append(d)
        return out


def donor_equation(tag):
    d = ct.fresh_tree(DONOR).classes["Donor"]
    for e in d.equations + d.initial_equations:
        if e.comment == tag:
            return e
    raise MachineryError("no donor equation %r" % tag)


def flat_obs(tree, c):
    """flat model of class c: symbol names, equation / initial-equation tags, and the flattened user functions
    that come with it (name -> symbol names)"""
    from pymoca import ast, tree as ptree
    try:
        r = ptree.flatten(tree, ast.ComponentRef.from_string(c))
    except Exception as e:
        return {"ok": False, "err": type(e).__name__, "msg": str(e)[:120], "syms": [], "eqs": [], "ieqs": [], "funcs": {}}
    names = list(r.classes)
    fc = r.classes[names[-1]]
    return {"ok": True, "err": "", "syms": sorted(fc.symbols), "eqs": sorted(str(e.comment) for e in fc.equations),
            "ieqs": sorted(str(e.comment) for e in fc.initial_equations),
            "funcs": {n: sorted(r.classes[n].symbols) for n in names[:-1]}}


def norm(x):
    fs = x.get("funcs") or {}
    return {"ok": bool(x["ok"]), "syms": sorted(x["syms"]), "eqs": sorted(x["eqs"]), "ieqs": sorted(x.get("ieqs", [])),
            "funcs": {k: sorted(v) for k, v in fs.items()} if isinstance(fs, dict) else {}}


def diff_obs(want, got):
    """[(tree index (1-based), class, wanted, got)] where the property-level observation differs"""
    out = []
    for i, (w, g) in enumerate(zip(want, got)):
        for c in sorted(w):
            if norm(w[c]) != norm(g[c]):
                out.append((i + 1, c, norm(w[c]), norm(g[c])))
    if len(want) != len(got):
        out.append((0, "*", len(want), len(got)))
    return out


def run_history(acts, expects, extras=True, corrupt=None):
    """Replay one history.  Returns {"fail": None | {...}, "drift": [...], "steps": n, "extra_fail": [...]}"""
    ad = Adapter(lib_of(acts))
    res = {"fail": None, "drift": [], "steps": 0, "extra_fail": [], "copy_of_copy": False}
    for k, act in enumerate(acts):
        if act["act"] == "deepcopy" and act["i"] > 1:
            res["copy_of_copy"] = True
        try:
            live = ad.apply(act)
        except MachineryError:
            raise
        except Exception as e:
            res["fail"] = {"step": k, "kind": "api-call-raised", "exc": exc_record(e), "observed": None,
                           "detail": "%s raised %s" % (json.dumps(act), exc_record(e)["detail"])}
            return res
        res["steps"] += 1
        want = expects[k]
        if live is not None and norm(live) != norm(want[act["i"] - 1][act["c"]]):
            res["fail"] = {"step": k, "kind": "flatten-on-live-tree", "exc": {"exception_type": live.get("err") or None},
                           "observed": None, "tree": act["i"], "cls": act["c"],
                           "detail": "flatten(live tree %d, %s) gives %s %s, required %s" % (
                               act["i"], act["c"], json.dumps(norm(live)), live.get("msg", ""), json.dumps(norm(want[act["i"] - 1][act["c"]])))}
            return res
        if corrupt is not None and corrupt == k:
            want = json.loads(json.dumps(want))
            key = "Mid" if "Mid" in want[0] else "Q.D"
            want[0][key]["syms"] = want[0][key]["syms"][:-1]
        got = ad.observe()
        d = diff_obs(want, got)
        if d:
            i, c, w, g = d[0]
            res["fail"] = {"step": k, "kind": "flatten-after-edit", "exc": {"exception_type": None}, "observed": got,
                           "tree": i, "cls": c,
                           "detail": "after %s: flatten(tree %d, %s) gives %s, required %s (%d class(es) differ)" % (
                               json.dumps(act), i, c, json.dumps(g), json.dumps(w), len(d))}
            return res
        for i, p in enumerate(ad.parents()):
            if any(v != "own" for v in p.values()):
                res["drift"].append("class-parent-outside-own-tree")
                break
    if extras and acts:
        res["extra_fail"] = end_of_history(ad, expects[-1])
    return res


def end_of_history(ad, want):
    """full-result comparisons against an uncopied reference tree; the live flatten pass comes last"""
    from pymoca import ast, tree as ptree
    out = []
    snaps = ad.snapshot()
    for i in range(len(ad.trees)):
        ref = ad.reference(i)
        for c in ad.classes:
            a = ct.request(pickle.loads(pickle.dumps(snaps))[i], c, "flatten")
            b = ct.request(pickle.loads(pickle.dumps(ref)), c, "flatten")
            if not ct.same_outcome(a, b):
                out.append({"kind": "flatten-json-vs-uncopied-reference", "tree": i + 1, "cls": c, "probe": False,
                            "detail": "tree %d class %s: %s, uncopied reference %s" % (i + 1, c, ct.short(a), ct.short(b))})
            for be in ("sympy", "xml"):
                a = ct.request(ad.trees[i], c, be)           # these deep-copy the tree themselves
                b = ct.request(pickle.loads(pickle.dumps(ref)), c, be)
                if not ct.same_outcome(a, b):
                    out.append({"kind": be + "-vs-uncopied-reference", "tree": i + 1, "cls": c, "probe": True,
                                "detail": "%s.generate(tree %d, %s): %s %s, uncopied reference %s" % (
                                    be, i + 1, c, ct.short(a), a[2][:120] if a[0] == "exc" else "", ct.short(b))})
    live = [{c: flat_obs(t, c) for c in ad.classes} for t in ad.trees]      # LAST: flatten may rewrite the live trees (C05)
    for i, c, w, g in diff_obs(want, live):
        out.append({"kind": "live-flatten", "tree": i, "cls": c, "probe": False,
                    "detail": "flatten(live tree %d, %s) gives %s, required %s" % (i, c, json.dumps(g), json.dumps(w))})
    return out


# ---------------------------------------------------------------------------------------------
def eval_histories(ctx, histories, cfg, what):
    """TLC evaluates the given histories (ClassTreeCopyTrace); returns per history the list of EV records"""
    if not histories:
        return []
    fd, path = tempfile.mkstemp(suffix=".json", prefix="c06tr_")
    with os.fdopen(fd, "w") as f:
        json.dump(histories, f)
    try:
        res = tlc.run("ClassTreeCopyTrace", cfg, workers=1, env={"TRACE_FILE": path}, deadlock=False, timeout=1800)
    finally:
        os.unlink(path)
    if ctx is not None:
        ctx.add_tlc(res, what)
    if res.violated:
        raise MachineryError("ClassTreeCopyTrace rejected a history that the spec itself generated: %s" % res.violated)
    out = [[None] * len(h) for h in histories]
    for e in res.tr("EV"):
        out[e["tid"] - 1][e["l"] - 1] = e
    for h, o in zip(histories, out):
        if any(x is None for x in o):
            raise MachineryError("trace evaluation incomplete for %s" % json.dumps(h))
    return out


def strip(act):
    return {k: v for k, v in act.items() if k in ("act", "i", "c", "s", "e")}


def classify(ctx, fails, variant):
    """fails: list of (acts, fail dict | extra dict).  Adds the as-built tag to each by asking TLC what the
    as-built pointer semantics shows after the same history."""
    hs = []
    for acts, f in fails:
        h = [strip(a) for a in acts[:f["step"] + 1]] if "step" in f else [strip(a) for a in acts]
        if f.get("probe"):
            h = h + [{"act": "deepcopy", "i": f["tree"]}]     # sympy/xml deep-copy the tree: look at a hypothetical copy
        hs.append(h)
    evs = [None] * len(hs)
    for lib, suffix in (("flat", ""), ("pkg", "_pkg")):
        idx = [k for k, h in enumerate(hs) if lib_of(h) == lib]
        got = eval_histories(ctx, [hs[k] for k in idx], "ClassTreeCopyTrace_asbuilt%s%s.cfg" % (variant, suffix),
                             "as-built evaluation of %d deviating histories (%s library)" % (len(idx), lib))
        for k, e in zip(idx, got):
            evs[k] = e
    tags = []
    for (acts, f), ev in zip(fails, evs):
        last = ev[-1]
        if f["kind"] == "api-call-raised":
            tags.append(EXPLAINS if last["raises"] else NOT_EXPLAINS)
        elif f["kind"] == "flatten-on-live-tree":
            tags.append(NOT_EXPLAINS)
        elif f["kind"] == "flatten-after-edit":
            tags.append(EXPLAINS if not diff_obs(last["asbuilt"], f["observed"]) and not last["raises"] else NOT_EXPLAINS)
        else:
            i, c = f["tree"], f["cls"]
            j = len(last["asbuilt"]) if f.get("probe") else i
            dev = norm(last["asbuilt"][j - 1][c]) != norm(last["expect"][i - 1][c])
            tags.append(DEV_HERE if dev else SAME_HERE)
    return tags


def record_of(acts, f, tag):
    step = f.get("step", len(acts) - 1)
    act = acts[step]
    victim = "victim:n/a"
    if "tree" in f and f["tree"]:
        if act["act"] == "deepcopy":
            ntrees = 1 + sum(1 for a in acts[:step + 1] if a["act"] == "deepcopy")
            victim = "victim:new-copy" if f["tree"] == ntrees else "victim:older-tree"
        else:
            victim = "victim:edited-tree" if f["tree"] == act["i"] else "victim:other-tree"
    tags = ["act:" + act["act"], victim, tag]
    return {"observable": f["kind"], "tags": tags, "exception_type": (f.get("exc") or {}).get("exception_type"),
            "detail": "history %s: %s" % (json.dumps([strip(a) for a in acts[:step + 1]]), f["detail"])}


# ---------------------------------------------------------------------------------------------
_ITEMS = []


def _w(idx):
    acts, expects, extras = _ITEMS[idx]
    return run_history(acts, expects, extras=extras)


def run(ctx):
    thorough = ctx.tier == "thorough"
    procs = int(os.environ.get("VERIF_PROCS", "16"))
    variant = _variant()
    ctx.extra["flatten_copies_requested_class"] = bool(variant)
    # ---- 1. TLC: property on the spec -----------------------------------------------------------------
    # quick: the variant that matches how tree.flatten of this tree looks the class up; thorough: both, plus the
    # explicit as-built counterexample run (in quick the non-empty DEV log below is the evidence that as-built deviates)
    cfgs = ("ClassTreeCopy_intended.cfg", "ClassTreeCopy_intended_topcopy.cfg", "ClassTreeCopy_intended_pkg.cfg",
            "ClassTreeCopy_intended_pkg_topcopy.cfg") if thorough else (
        "ClassTreeCopy_intended%s_q.cfg" % variant, "ClassTreeCopy_intended_pkg%s_q.cfg" % variant)
    for cfg in cfgs:
        r = tlc.run("ClassTreeCopy", cfg, workers=min(procs, 8))
        ctx.add_tlc(r, "intended: PointerSemanticsIsValueSemantics, ParentClosed, NoRaise, Independence, CopyFaithful; histories <= 4, 3 trees")
        if r.violated:
            raise MachineryError("intended spec violates %s\n%s" % (r.violated, r.cex[-2000:]))
    if thorough:
        r = tlc.run("ClassTreeCopy", "ClassTreeCopy_asbuilt.cfg", workers=1)
        ctx.add_tlc(r, "as-built: counterexample expected")
        if "PointerSemanticsIsValueSemantics" not in r.violated:
            raise MachineryError("as-built spec does not violate the property - the switches are vacuous")
    # ---- 2. histories -----------------------------------------------------------------------------------
    rd = tlc.run("ClassTreeCopy", "ClassTreeCopy_asbuilt_dev%s.cfg" % variant, workers=1)
    ctx.add_tlc(rd, "as-built: every shortest history (<= 3 steps) after which the pointer semantics first deviates (DEV log)")
    dev_hist, dev_expect = [], []
    seen = set()
    for d in rd.tr("DEV"):
        h = [strip(a) for a in d["hist"]]
        k = json.dumps(h)
        if k not in seen:
            seen.add(k)
            dev_hist.append(h)
            dev_expect.append([a["expect"] for a in d["hist"]])      # value semantics, independent of the switches
    if len(dev_hist) < 20:
        raise MachineryError("only %d as-built deviation histories - DEV log broken?" % len(dev_hist))
    if not thorough:       # quick: a seeded third of the (historical) as-built deviations
        import random as _r
        pick = sorted(_r.Random(ctx.seed + 41).sample(range(len(dev_hist)), len(dev_hist) // 3))
        dev_hist, dev_expect = [dev_hist[k] for k in pick], [dev_expect[k] for k in pick]
    # value-state graphs (TR-log) of three edit universes:
    #   u1 (3 trees): symbols on Leaf / Mid, equation E1 on Leaf, remove / re-add class Leaf
    #   u2 (2 trees): additions to EMPTY containers (symbol on Bare, equation on Leaf, initial equation on Top) and
    #                 edits of the called function f
    #   u3 (3 trees): Bare / f edits with copies of copies
    # value-state graphs, each replayed completely.  quick: u1 / u2 / p1 with 2 trees, u3 / u4 with 3 trees;
    # thorough: u1 and p1 with 3 trees as well
    graphs = []
    cfgs = [("u1-2trees", "ClassTreeCopy_graph2_u1.cfg"), ("u2", "ClassTreeCopy_graph2_u2.cfg"), ("u3", "ClassTreeCopy_graph3_u3.cfg"),
            ("u4", "ClassTreeCopy_graph3_u4.cfg"), ("p1-2trees", "ClassTreeCopy_graph2_p1.cfg")]
    if thorough:
        cfgs += [("u1-3trees", "ClassTreeCopy_graph3_u1.cfg"), ("p1-3trees", "ClassTreeCopy_graph3_p1.cfg")]
    for name, cfg in cfgs:
        rg = tlc.run("ClassTreeCopy", cfg, workers=1, timeout=1800)
        ctx.add_tlc(rg, "intended value-state graph, edit universe %s, TR-log" % name)
        if rg.violated:
            raise MachineryError("graph run %s violates %s" % (cfg, rg.violated))
        graphs.append((name, graph.Graph(rg.tr()), 1.0))
    global _ITEMS
    _ITEMS = []
    kinds = []
    for h, ex in zip(dev_hist, dev_expect):
        _ITEMS.append((h, ex, thorough or len(_ITEMS) % 4 == 0))
        kinds.append("asbuilt-directed")
    gstats = {}
    import random
    rng = random.Random(ctx.seed + 29)
    for name, g, share in graphs:
        tour, covered = g.tour(max_len=30)
        if len(covered) != g.n_edges():
            raise MachineryError("tour covered %d of %d transitions" % (len(covered), g.n_edges()))
        if share < 1.0:
            tour = rng.sample(tour, max(1, int(len(tour) * share)))
        walks = g.random_walks(10 if not thorough else 150, 25, ctx.seed + 3)
        gstats[name] = {"states": g.n_states(), "transitions": g.n_edges(), "tour_paths_replayed": len(tour),
                        "tour_share": share, "walks": len(walks)}
        for kind, plist in (("tour", tour), ("walk", walks)):
            for n, p in enumerate(plist):
                st = g.steps(p)
                acts = [s[1] for s in st]
                extras = thorough or (kind == "walk" and n % 2 == 0) or n % 6 == 0
                _ITEMS.append(([strip(a) for a in acts], [a["expect"] for a in acts], extras))
                kinds.append(name + "-" + kind)
    results = pmap(_w, range(len(_ITEMS)), procs)
    # ---- 3. verdicts ----------------------------------------------------------------------------------------
    fails = []
    cov = {"histories": {}, "steps": 0, "actions": {}, "copy_of_copy": 0, "primary_fail": 0, "extra_fail": 0, "extras_run": 0}
    for (acts, expects, extras), kind, res in zip(_ITEMS, kinds, results):
        ctx.traces += 1
        cov["histories"][kind] = cov["histories"].get(kind, 0) + 1
        cov["steps"] += res["steps"]
        cov["copy_of_copy"] += 1 if res["copy_of_copy"] else 0
        cov["extras_run"] += 1 if extras and not res["fail"] else 0
        for a in acts[:res["steps"]]:
            cov["actions"][a["act"]] = cov["actions"].get(a["act"], 0) + 1
        for d in set(res["drift"]):
            ctx.note_drift(d)
        if res["fail"]:
            cov["primary_fail"] += 1
            fails.append((acts, res["fail"]))
        for x in res["extra_fail"]:
            cov["extra_fail"] += 1
            fails.append((acts, x))
        if kind.endswith("tour"):
            ctx.sample({"kind": kind, "history": acts[:5], "expected_after_step_5": expects[min(4, len(expects) - 1)],
                        "deviation": res["fail"]["detail"][:300] if res["fail"] else None}, limit=3)
    for a in ("deepcopy", "flatten", "add_symbol", "remove_symbol", "add_equation", "remove_equation", "add_initial_equation",
              "remove_initial_equation", "add_class", "remove_class"):
        if not cov["actions"].get(a):
            raise MachineryError("vacuous: action %s never replayed" % a)
    if not cov["copy_of_copy"]:
        raise MachineryError("vacuous: no history copies a copy")
    if cov["extras_run"] < 20:
        ctx.extra["note_extras"] = "few histories reached the end-of-history comparisons (%d) because most deviate earlier" % cov["extras_run"]
    # one replay file per violation class is enough: keep the shortest history per (kind, step action, victim)
    fails.sort(key=lambda x: len(x[0]))
    tags = classify(ctx, fails, variant) if fails else []
    for (acts, f), tag in zip(fails, tags):
        rec = record_of(acts, f, tag)
        step = f.get("step", len(acts) - 1)
        ctx.violation(rec, {"history": [strip(a) for a in acts[:step + 1]] if "step" in f else [strip(a) for a in acts],
                            "kind": f["kind"], "tree": f.get("tree"), "cls": f.get("cls")})
    ctx.extra["graphs"] = gstats
    ctx.extra["replay"] = cov
    ctx.extra["asbuilt_directed_histories"] = len(dev_hist)
    # ---- 4. binding self-test: a corrupted expectation must be rejected ------------------------------------------
    g = graphs[0][1]
    p = g.tour(max_len=6)[0][0]
    acts = [s[1] for s in g.steps(p)]
    bad = run_history([strip(a) for a in acts], [a["expect"] for a in acts], extras=False, corrupt=0)
    if not bad["fail"] or bad["fail"]["step"] != 0:
        raise MachineryError("binding self-test failed: a corrupted expectation was accepted")
    ctx.assumptions += [
        "observations are made on pickle snapshots of all live trees (faithful object-graph clone), so flatten's own "
        "in-place rewriting (C05) cannot leak into this check; one flatten pass on the live trees ends every history",
        "two failing flattens count as equal regardless of the exception type",
    ]
    return {"exhaustive": True,
            "explanation": "every transition of the value-state graphs u1 (%s trees), u2 (2 trees), u3 (3 trees) replayed" % ("2 and 3" if thorough else "2")}


# ---------------------------------------------------------------------------------------------
def replay(ctx, sc):
    variant = _variant()
    hist = sc["history"]
    ev = eval_histories(ctx, [hist], "ClassTreeCopyTrace_intended%s.cfg" % ("_pkg" if lib_of(hist) == "pkg" else ""),
                        "expected observations of the replayed history")[0]
    res = run_history(hist, [e["expect"] for e in ev],
                      extras=sc["kind"] not in ("flatten-after-edit", "api-call-raised", "flatten-on-live-tree"))
    fails = []
    if res["fail"]:
        fails.append((hist, res["fail"]))
    for x in res["extra_fail"]:
        if x["kind"] == sc["kind"] and x["tree"] == sc.get("tree") and x["cls"] == sc.get("cls"):
            fails.append((hist, x))
    if not fails:
        return []
    tags = classify(ctx, fails, variant)
    return [record_of(a, f, t) for (a, f), t in zip(fails, tags)]
