\* intended state graph, quotient by the value state, 3 trees, edit universe u3 (Bare s, f t): every transition logged (TR)
CONSTANTS DeepCopyRebindsParents = TRUE CopyHookBoundToCopy = TRUE FlattenCopiesTop = FALSE
          Lib = "flat" Universe = "u3" MaxTrees = 3 MaxOps = 1000000
INIT Init
NEXT Next
VIEW ViewVal
ACTION_CONSTRAINT Log
INVARIANT PointerSemanticsIsValueSemantics
CHECK_DEADLOCK FALSE
