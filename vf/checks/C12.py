"""C12 - Representation-only options do not change the model's meaning.

Spec: spec/EvalGen.tla with ExploreOptions = TRUE (cfg EvalGen_opt_*.cfg): the state carries the option set
(unroll_loops, inline_functions, expand_mx); Represent() rewrites the lowered equations the way the options do
(mapped loop body instantiated per iteration vs. one map node; function body substituted at the call site vs.
call node; expand_mx = identity at this level); TLC checks RejectsIffIndexBad / GenValueAgrees for every program
of family "opt" (all loop / function programs of the C11 families, programs with attributes, programs with
delay()) under all 8 option sets against the single declarative value.
Binding C: every program is generated + simplified under the 8 option sets printed by TLC; variable names, order,
Python types, attribute values, outputs, delay states and the four functions (dae residual, initial residual,
variable metadata, delay arguments) at TLC's points and at seeded random points must equal those of the default
option set; where the spec gives an expected residual, the default set is additionally compared with it (a
mismatch there is C11's subject and only counted).
"""
import random

from vf import evalrun, ir_eval
from vf.core import MachineryError, exc_record
from vf.par import pmap

META = {
    "ready": True,
    "category": "model_checking",
    "technique": "TLA+ model of the generator (EvalGen.tla) with the representation options as state, model-checked by TLC for all 8 option sets per program against one declarative value; every (program, option set) printed by TLC replayed against generator.generate() + Model.simplify() and compared with the default option set (oracle mode + differential)",
    "text": "For every program with a for-loop or a user-function call from the C11 families (plus programs with attributes and with delay()), TLC explores the 8 combinations of (unroll_loops, inline_functions, expand_mx): the lowered form is rewritten as the options prescribe (loop body instantiated per iteration or mapped; function substituted or called) and must keep the declarative residual at 4 exact points. The real back end is run under the same 8 option sets: variable lists (names, order, types, attributes), outputs, delay states and dae/initial residual, variable-metadata and delay-argument functions at those points and at seeded random points must be identical to the default option set.",
    "note": "Trusted: TLC, vf/ir_eval.py. expand_mx has no counterpart in the abstract model (identity); on the code it is exercised through Model.simplify(options). Programs on which the default option set itself deviates from the spec (C11 findings) are still compared across option sets. Numerical equality up to 1e-9 relative. Not covered: interaction with the other simplification options (C14-C16), codegen.",
    "design_ref": "DESIGN.md section 6, C12",
}

OPT_KEYS = (("unroll", "unroll_loops"), ("inline", "inline_functions"), ("expand", "expand_mx"))


def options_of(opt):
    return {real: bool(opt[k]) for k, real in OPT_KEYS}


def _env_with_delays(model, env):
    e = dict(env)
    for k, name in enumerate(model.delay_states):
        v = next(x for x in model.inputs if x.symbol.name() == name)
        n = v.symbol.size1() * v.symbol.size2()
        e[name] = {"sh": [n] if n > 1 else [], "d": [[k + 1 + j, 4] for j in range(n)]}
    return e


def snapshot(model, envs):
    """everything the property names, read from the model as it is NOW; JSON-able"""
    pm = ir_eval.pymoca()
    ca, np = pm["ca"], pm["np"]
    obs = {"vars": ir_eval.variables(model), "outputs": list(model.outputs), "delay_states": list(model.delay_states),
           "types": {v.symbol.name(): v.python_type.__name__ for g in ir_eval.GROUPS for v in getattr(model, g)}}
    psyms = ca.veccat(*[p.symbol for p in model.parameters])
    fns = {}
    for key, attr in (("dae", "dae_residual_function"), ("init", "initial_residual_function"),
                      ("meta", "variable_metadata_function"), ("delay", "delay_arguments_function")):
        try:
            fns[key] = getattr(model, attr)
        except Exception as e:
            obs.setdefault("fn_exc", {})[key] = exc_record(e)["detail"]
    vals = {k: [] for k in ("dae", "init", "meta", "delay", "attrs")}
    for env in envs:
        try:
            e2 = _env_with_delays(model, env)
            args = ir_eval.fn_args(model, e2)
        except ir_eval.UnknownVariable as e:
            obs["unknown"] = str(e)
            break
        pvec = args[-1]
        for key in ("dae", "init", "delay"):
            if key in fns:
                try:
                    vals[key].append(ir_eval.call_vec(fns[key], args))
                except Exception as e:
                    vals[key].append("EXC " + type(e).__name__)
        if "meta" in fns:
            try:
                vals["meta"].append(ir_eval.call_vec(fns["meta"], [pvec]))
            except Exception as e:
                vals["meta"].append("EXC " + type(e).__name__)
        row = []
        for g in ("states", "alg_states", "inputs", "parameters", "constants"):
            for v in getattr(model, g):
                for a in ("value", "min", "max", "start", "fixed", "nominal"):
                    x = getattr(v, a)
                    try:
                        if isinstance(x, ca.MX):
                            x = np.array(ca.Function("a", [psyms], [x])(pvec)).reshape(-1, order="F")
                        row += [float(y) for y in np.array(x, dtype=float).reshape(-1, order="F")]
                    except Exception as e:
                        row.append("EXC " + type(e).__name__)
        vals["attrs"].append(row)
    obs["vals"] = vals
    return obs


def observe(prog, opts, envs):
    """One usage history of a model under one option set, the same for every option set:
       (1) compile (generate + simplify) and read everything;
       (2) the user edits attributes of a variable (max, nominal) and reads everything again;
       (3) the user runs one more simplification pass (replace_parameter_values, representation options not
           repeated) and reads everything again.
    The four functions are properties that are rebuilt on access; a representation option must not turn them into
    something that remembers an earlier state of the model."""
    try:
        model = ir_eval.generate(prog, opts, simplify=True)
    except MachineryError:
        raise
    except Exception as e:
        return {"exc": exc_record(e)}
    obs = snapshot(model, envs)
    later = {}
    cands = list(model.states) + list(model.alg_states)
    if cands:
        cands[0].max = 12.5
        cands[0].nominal = 3.0
    later["after-edit"] = snapshot(model, envs)
    try:
        model.simplify({"replace_parameter_values": True})
        later["after-resimplify"] = snapshot(model, envs)
    except MachineryError:
        raise
    except Exception as e:
        later["after-resimplify"] = {"exc": exc_record(e)["exception_type"]}
    obs["later"] = later
    return obs


def _is_num_list(x):
    return isinstance(x, (list, tuple)) and all(isinstance(v, float) for v in x)


def same(a, b):
    """numerically the same: per element RELATIVE 1e-9, plus a floor of 1e-13 of the largest entry of the vector
    (so that rounding noise in a cancelling row of an otherwise O(1) vector does not count, while a change in a row
    whose terms are all tiny does)"""
    import math
    if _is_num_list(a) and _is_num_list(b):
        if len(a) != len(b):
            return False
        fin = [abs(v) for v in list(a) + list(b) if math.isfinite(v)]
        scale = max(fin) if fin else 0.0
        for x, y in zip(a, b):
            if math.isnan(x) or math.isnan(y):
                if not (math.isnan(x) and math.isnan(y)):
                    return False
            elif math.isinf(x) or math.isinf(y):
                if x != y:
                    return False
            elif abs(x - y) > 1e-9 * max(abs(x), abs(y)) + 1e-13 * scale:
                return False
        return True
    if isinstance(a, (list, tuple)) and isinstance(b, (list, tuple)):
        return len(a) == len(b) and all(same(x, y) for x, y in zip(a, b))
    if isinstance(a, float) and isinstance(b, float):
        return same([a], [b])
    return a == b


BASES = ({}, {"expand_vectors": True})      # the 8 representation sets are compared on top of each base option set


def expanded_names(env):
    """env of array values -> additionally the scalars name[i] / name[i,j] / der(name[i]) that expand_vectors creates"""
    out = dict(env)
    for name, val in env.items():
        sh = val["sh"]
        if not sh:
            continue
        pre, core, post = ("der(", name[4:-1], ")") if name.startswith("der(") else ("", name, "")
        idx = [(i,) for i in range(1, sh[0] + 1)] if len(sh) == 1 else [(i, j) for i in range(1, sh[0] + 1) for j in range(1, sh[1] + 1)]
        for k, t in enumerate(idx):
            out["%s%s[%s]%s" % (pre, core, ",".join(map(str, t)), post)] = {"sh": [], "d": [val["d"][k]]}
    return out


def random_envs(env, seed, n=2):
    rng = random.Random(seed)
    out = []
    for _ in range(n):
        e = {}
        for name in sorted(env):
            val = env[name]
            pinned_like = False
            e[name] = {"sh": val["sh"], "d": [[rng.randint(-4000, 4000), 1000] for _ in val["d"]]} if not pinned_like else val
        out.append(e)
    return out


def judge_group(args):
    """all option sets of one program -> (records, info)"""
    group, seed, bases = args
    group = sorted(group, key=lambda it: (not (it["opt"]["unroll"] and it["opt"]["inline"] and not it["opt"]["expand"]),
                                         sorted(it["opt"].items())))
    base = group[0]
    prog = base["prog"]
    envs = [p["env"] for p in base["allpts"]]
    # random points keep the pinned structural values (Integer parameters with a literal binding, constants)
    pinned = {c["name"] for c in prog["comps"] if c["prefix"] == "constant" or (c["prefix"] == "parameter" and c["type"] == "Integer")}
    for e in random_envs(envs[0], seed):
        for n in pinned:
            e[n] = envs[0][n]
        envs.append(e)
    envs = [expanded_names(e) for e in envs]
    ref = observe(prog, options_of(base["opt"]), envs)
    info = {"default": "exc" if "exc" in ref else "ok", "spec": "n/a"}
    exp = base["expect"]
    if "exc" not in ref and exp["kind"] == "rows" and exp["pts"] and "unknown" not in ref:
        idx = {p["t"]: k for k, p in enumerate(base["allpts"])}
        expb = lambda name: [[[evalrun.fval(x) for x in blk] for blk in p[name]] for p in exp["pts"]]  # noqa
        ok = True
        for name in ("dae", "init"):
            act = [ref["vals"][name][idx[p["t"]]] for p in exp["pts"]]
            if any(isinstance(a, str) for a in act) or evalrun.compare_blocks(expb(name), act)[0] in ("size", "value"):
                ok = False
        info["spec"] = "agrees" if ok else "differs"
    recs = []
    for bi, base_opts in enumerate(bases):
        # the default representation set on top of this base option set is the reference of its 8 runs
        bref = ref if bi == 0 else observe(prog, dict(base_opts, **options_of(base["opt"])), envs)
        btag = [] if bi == 0 else ["base:" + ",".join("%s=%s" % kv for kv in sorted(base_opts.items()))]
        for it in group[1:]:
            o = observe(prog, dict(base_opts, **options_of(it["opt"])), envs)
            flags = ["%s=%d" % (real, int(bool(it["opt"][k]))) for k, real in OPT_KEYS]
            default = {"unroll_loops": 1, "inline_functions": 1, "expand_mx": 0}
            tags = sorted(set(it["tags"]) | set(btag) | {"opt:" + f for f in flags if int(f[-1]) != default[f[:-2]]})   # the toggled options

            def rec(obs_, detail, exc=None, tags=tags, flags=flags):
                return {"observable": obs_, "tags": tags, "exception_type": exc,
                        "detail": "options %s%s vs the default representation set: %s" % (flags, " on " + btag[0] if btag else "", detail),
                        "sigdetail": ",".join(sorted(t for t in tags if t.startswith(("opt:", "base:"))))}
            if ("exc" in bref) != ("exc" in o):
                recs.append(rec("raises-depends-on-options", "default %s, here %s" % (bref.get("exc", "ok"), o.get("exc", "ok")),
                                (o.get("exc") or bref.get("exc"))["exception_type"]))
                continue
            if "exc" in bref:
                continue

            def compare(o_, r_, suffix, rec=rec):
                if ("exc" in o_) or ("exc" in r_):
                    if o_.get("exc") != r_.get("exc"):
                        recs.append(rec("raises-depends-on-options" + suffix, "%s vs %s" % (o_.get("exc", "ok"), r_.get("exc", "ok"))))
                    return
                for key, obsname in (("vars", "variables-differ"), ("types", "variables-differ"), ("outputs", "outputs-differ"),
                                     ("delay_states", "delay-states-differ")):
                    if o_[key] != r_[key]:
                        recs.append(rec(obsname + suffix, "%s: %s vs %s" % (key, o_[key], r_[key])))
                if o_.get("fn_exc") != r_.get("fn_exc") or o_.get("unknown") != r_.get("unknown"):
                    recs.append(rec("function-construction-differs" + suffix, "%s vs %s" % (o_.get("fn_exc") or o_.get("unknown"), r_.get("fn_exc") or r_.get("unknown"))))
                for key, obsname in (("dae", "dae-residual-differs"), ("init", "initial-residual-differs"), ("meta", "metadata-function-differs"),
                                     ("delay", "delay-arguments-differ"), ("attrs", "variable-attributes-differ")):
                    if not same(o_["vals"][key], r_["vals"][key]):
                        k = next((i for i, (x, y) in enumerate(zip(o_["vals"][key], r_["vals"][key])) if not same(x, y)), 0)
                        recs.append(rec(obsname + suffix, "point %d: %s vs %s" % (k, str(o_["vals"][key][k:k + 1])[:200], str(r_["vals"][key][k:k + 1])[:200])))
            compare(o, bref, "")
            for phase in ("after-edit", "after-resimplify"):
                compare(o["later"][phase], bref["later"][phase], "-" + phase)
    return recs, info


def run(ctx):
    ir_eval.pymoca()
    xdg = ir_eval.scratch_env()
    try:
        items, _ = evalrun.tlc_items(ctx, "EvalGen", "opt", ctx.tier, cfg="EvalGen_opt_%s.cfg" % ctx.tier, shards=4)
        groups = {}
        for it in items:
            groups.setdefault(evalrun.json.dumps(it["prog"], sort_keys=True), []).append(it)
        glist = [groups[k] for k in sorted(groups)]
        for g in glist:
            if len(g) != 8:
                raise MachineryError("program enumerated under %d option sets instead of 8" % len(g))
        cov = {}
        stat = {"default-exc": 0, "spec-agrees": 0, "spec-differs": 0, "spec-n/a": 0}
        # quick: the second base option set for every second program and for all programs with attributes, delays or
        # tiny coefficients; thorough: for every program
        def bases_for(i, g):
            special = {"with-attributes", "delay", "tiny-coefficients"} & set(g[0]["tags"])
            return BASES if (ctx.tier == "thorough" or special or i % 2 == 0) else BASES[:1]
        res = pmap(judge_group, [(g, ctx.seed + i, bases_for(i, g)) for i, g in enumerate(glist)])
        for g, (recs, info) in zip(glist, res):
            ctx.programs += 8 * len(bases_for(glist.index(g), g))
            ctx.traces += 1
            stat["spec-" + info["spec"]] += 1
            if info["default"] == "exc":
                stat["default-exc"] += 1
            for t in g[0]["tags"]:
                cov[t] = cov.get(t, 0) + 1
            for r in recs:
                ctx.violation(r, {"group": g, "seed": ctx.seed + glist.index(g), "bases": [dict(b) for b in bases_for(glist.index(g), g)]})
        for t in ("k:for", "op:f", "delay", "with-attributes", "tiny-coefficients", "fn:k:forst", "fn:k:ifst", "call-in-loop", "initial"):
            if not cov.get(t):
                raise MachineryError("vacuous: no program with shape tag %s" % t)
        if stat["spec-agrees"] == 0:
            raise MachineryError("vacuous: no program whose default option set agrees with the spec")
        # binding self-test: the comparison must tell two different programs apart
        ea = [p_["env"] for p_ in glist[0][0]["allpts"]]
        oa = observe(glist[0][0]["prog"], options_of(glist[0][0]["opt"]), ea)
        diff = None
        for g in glist[1:]:
            if g[0]["prog"]["comps"] == glist[0][0]["prog"]["comps"] and g[0]["prog"] != glist[0][0]["prog"]:
                ob = observe(g[0]["prog"], options_of(g[0]["opt"]), ea)
                if "exc" not in oa and "exc" not in ob:
                    diff = not (same(oa["vals"]["dae"], ob["vals"]["dae"]) and same(oa["vals"]["init"], ob["vals"]["init"]))
                    break
        if diff is False:
            raise MachineryError("binding self-test failed: two different programs compare equal")
        ctx.sample({"modelica": ir_eval.render(glist[0][0]["prog"]), "option_sets": [g_["opt"] for g_ in glist[0]]})
        ctx.sample({"modelica": ir_eval.render(glist[-1][0]["prog"]), "option_sets": 8})
        ctx.extra["per_tag_programs"] = cov
        ctx.extra["default_option_set_vs_spec"] = stat
    finally:
        import shutil
        shutil.rmtree(xdg, ignore_errors=True)
    ctx.assumptions += ["expand_mx takes effect through Model.simplify(options); all other simplification options stay off",
                        "delay-state inputs get fixed dyadic values; 2 additional seeded random points per program"]
    return {"evaluations": ctx.programs * 6, "exhaustive": True}


def replay(ctx, sc):
    ir_eval.pymoca()
    recs, _ = judge_group((sc["group"], sc["seed"], tuple(sc.get("bases") or BASES)))
    return recs
