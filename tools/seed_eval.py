#!/venv/bin/python
"""Confirm a seeded change and run checks against it.

usage: seed_eval.py <seed id> <dir with patch.diff demo.py notes.txt> <property> [check ids ...] [--tier T] [--skip-baseline]
 1. scratch worktree of /repo HEAD (outside /repo and /verif); demo must pass without the patch
 2. git apply patch; demo must fail; pinned baseline must still pass
 3. VERIF_REPO=<worktree> ./check <id> --no-evidence for each listed check (default: the property's own)
 4. stores /verif/seeded/<seed id>/{patch.diff, demo.py, notes.txt, meta.json}; removes the worktree
"""
import json, os, shutil, subprocess, sys, time
args = [a for a in sys.argv[1:] if not a.startswith("--")]
tier = "quick"
if "--tier" in sys.argv:
    tier = sys.argv[sys.argv.index("--tier") + 1]; args.remove(tier)
sid, src, prop = args[0], args[1], args[2]
checks = args[3:] or [prop]
wt = "/tmp/seed_wt_%s" % sid
subprocess.run(["git", "-C", "/repo", "worktree", "remove", "--force", wt], capture_output=True)
subprocess.run(["git", "-C", "/repo", "worktree", "add", "-q", wt, "HEAD"], check=True)
env = dict(os.environ, PYTHONPATH="%s/src:%s" % (wt, wt), XDG_CACHE_HOME="/tmp/seed_cache_%s" % sid)
env.pop("PYMOCA_VERIF", None)
meta = {"seed": sid, "property": prop, "repo_head": subprocess.run(["git", "-C", "/repo", "rev-parse", "--short", "HEAD"], capture_output=True, text=True).stdout.strip(),
        "ran": [], "checks": {}}
def demo():
    d = "/tmp/seed_demo_%s" % sid
    shutil.rmtree(d, ignore_errors=True); os.makedirs(d)
    txt = open(os.path.join(src, "demo.py")).read()
    # demos were written against the author's own worktree path
    import re
    txt = re.sub(r"/tmp/mut_wt_C\d+[rs]?", wt, txt)
    open(os.path.join(d, "demo.py"), "w").write(txt)
    p = subprocess.run(["/venv/bin/python", "demo.py"], cwd=d, env=env, capture_output=True, text=True, timeout=900)
    shutil.rmtree(d, ignore_errors=True)
    return p.returncode, (p.stdout + p.stderr)[-600:]
try:
    rc0, out0 = demo()
    meta["demo_without_patch"] = rc0
    ap = subprocess.run(["git", "-C", wt, "apply", os.path.abspath(os.path.join(src, "patch.diff"))], capture_output=True, text=True)
    if ap.returncode != 0:
        print("patch does not apply:", ap.stderr); meta["applies"] = False
        raise SystemExit(3)
    rc1, out1 = demo()
    meta["demo_with_patch"] = rc1
    meta["demo_output_with_patch"] = out1
    if "--skip-baseline" not in sys.argv:
        b = subprocess.run(["/verif/tools/baseline.py", wt], capture_output=True, text=True)
        meta["baseline_with_patch"] = b.stdout.strip().splitlines()[:3]
        meta["baseline_ok"] = b.returncode == 0
    meta["confirmed"] = (rc0 == 0 and rc1 != 0 and meta.get("baseline_ok", True))
    print("demo without patch rc=%s, with patch rc=%s, baseline ok=%s -> confirmed=%s" % (rc0, rc1, meta.get("baseline_ok"), meta["confirmed"]))
    for c in checks:
        t = time.time()
        p = subprocess.run(["./check", c, "--no-evidence", "--tier", tier], cwd="/verif", env=dict(os.environ, VERIF_REPO=wt),
                           capture_output=True, text=True)
        lines = [l for l in p.stdout.splitlines() if l.startswith("VIOLATION") or l.startswith("  what:")]
        meta["checks"][c] = {"exit": p.returncode, "tier": tier, "violation_lines": lines[:6], "wall_s": round(time.time() - t, 1)}
        meta["ran"].append("VERIF_REPO=%s ./check %s --no-evidence --tier %s" % (wt, c, tier))
        print("check %s: exit %d (%s) %.0fs" % (c, p.returncode, "CAUGHT" if p.returncode == 1 else "MISSED" if p.returncode == 0 else "MACHINERY", time.time() - t))
        for l in lines[:4]: print("   ", l[:300])
        if p.returncode == 2: print(p.stdout[-1500:], p.stderr[-1500:])
    dst = "/verif/seeded/%s" % sid
    os.makedirs(dst, exist_ok=True)
    for f in ("patch.diff", "demo.py", "notes.txt"):
        if os.path.exists(os.path.join(src, f)) and os.path.realpath(src) != os.path.realpath(dst): shutil.copy(os.path.join(src, f), dst)
    notes = open(os.path.join(src, "notes.txt")).read() if os.path.exists(os.path.join(src, "notes.txt")) else ""
    meta["breaks"] = prop
    meta["needs_to_manifest"] = notes[:1500]
    old = {}
    if os.path.exists(os.path.join(dst, "meta.json")):
        old = json.load(open(os.path.join(dst, "meta.json")))
        hist = old.get("history", [])
        if not hist:   # runs made before the history field existed
            hist = [{"check": c, "exit": r["exit"], "at": "earlier"} for c, r in old.get("checks", {}).items()]
        old.get("checks", {}).update(meta["checks"]); cur = meta["checks"]; meta["checks"] = old["checks"]
        meta["history"] = hist + [{"check": c, "exit": r["exit"], "at": time.strftime("%Y-%m-%dT%H:%M:%SZ", time.gmtime())} for c, r in cur.items()]
        meta["ran"] = old.get("ran", []) + meta["ran"]
    else:
        meta["history"] = [{"check": c, "exit": r["exit"], "at": time.strftime("%Y-%m-%dT%H:%M:%SZ", time.gmtime())} for c, r in meta["checks"].items()]
    json.dump(meta, open(os.path.join(dst, "meta.json"), "w"), indent=1)
finally:
    subprocess.run(["git", "-C", "/repo", "worktree", "remove", "--force", wt], capture_output=True)
    shutil.rmtree("/tmp/seed_cache_%s" % sid, ignore_errors=True)
