"""C15 - Simplification keeps regular systems square and self-contained.

Same specification, program families and real executions as C14 (spec/Simplify.tla, spec/SimplifyTrace.tla);
this check reports the observables C15 names:
  * balance: len(states)+len(alg_states) minus the number of scalar equations is the same before and
    after simplify(options)                                       (TLC: action property Balance)
  * dae_residual_function / initial_residual_function of the simplified model can be built
    (TLC: invariant SelfContained - no remaining expression mentions an eliminated name)
  * per pass, on the trace recorded through model._VERIF_HOOK: Balance and SelfContained on the observed
    name sets / equation counts / referenced symbols (SimplifyTrace.tla); pass order and the frame
    conditions of each pass are auxiliary (model drift).
A simplify() that raises is a reported failure and tallied; C15 has no warning that excuses an unbalanced
result.
"""
from vf import simplify_run

META = {
    "ready": True,
    "category": "model_checking",
    "technique": "TLA+ spec (Simplify.tla): action property Balance and invariant SelfContained model-checked by TLC over models with nonsingular integer Jacobian and all option subsets; replay on the real generate()+simplify(); per-pass traces from the guarded hook validated by SimplifyTrace.tla",
    "text": "TLC checks that every pass of the specified pipeline removes exactly one unknown per removed equation and never leaves a reference to an eliminated name, for every replayed (blueprint, option set) pair, all 512 subsets of the nine rewriting options on a slice, and iterative simplification; the real code is run on the same programs: unknowns minus equations before/after, constructibility of both residual functions, and Balance/SelfContained after every pass of the recorded trace are compared with the property.",
    "note": "Trusted: TLC, the IR pretty-printer, the projection of a Model to name lists / equation counts / symvar sets. Regular (square, nonsingular) scalar models built by the spec; vector expansion is C18. variable_metadata_function is not part of this property (a constant defined from another constant already breaks it without simplification; reported under C13).",
    "design_ref": "DESIGN.md section 6, C14/C15; Appendix C.6",
}


def run(ctx):
    return simplify_run.run(ctx, "C15")


def replay(ctx, scenario):
    return simplify_run.replay(ctx, scenario, "C15")
