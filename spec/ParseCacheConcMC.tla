-------------------------- MODULE ParseCacheConcMC --------------------------
(* Model-checking wrapper: the constants of ParseCacheConc come from environment variables so
   that one cfg serves the whole matrix (processes x initial database x same/different text x
   threads/processes x intended/as-built).                                                  *)
EXTENDS ParseCacheConc, IOUtils
EnvProcs == IF IOEnv.C02_N = "3" THEN {1, 2, 3} ELSE {1, 2}
EnvSameText == IOEnv.C02_SAMETEXT = "TRUE"
EnvModels == IOEnv.C02_MODELS
EnvMeta == IOEnv.C02_META
EnvRows == IF IOEnv.C02_ROWS = "1" THEN {1} ELSE {}
EnvTouch == IOEnv.C02_TOUCH = "TRUE"
EnvShared == IOEnv.C02_SHARED = "TRUE"
EnvDeferred == IOEnv.C02_DEFERRED = "TRUE"
EnvLockedCorrupt == IOEnv.C02_LOCKEDCORRUPT = "TRUE"
EnvTimeout == IOEnv.C02_TIMEOUT = "TRUE"
=============================================================================
