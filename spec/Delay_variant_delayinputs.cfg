\* NOT how the code behaves: delay input symbols not counted as non-fixed inputs; TLC must refute RejectsExactly
CONSTANTS LoopDelayOwnFreeVars = TRUE
          LoopDurationMapped = TRUE
          ParamValuesReachDelays = TRUE
          ChecksBeforeSave = TRUE AliasesReachDurations = TRUE
          DelayInputsForbidden = FALSE ExpandKeepsElements = TRUE
          Family = "cex"
INIT Init
NEXT Next
VIEW View
INVARIANT TypeOK
INVARIANT NoPlaceholderLeft
INVARIANT RejectsExactly
INVARIANT ArgumentsPreserved
INVARIANT CacheHoldsOnlyAccepted
INVARIANT SameAnswerTwice
CHECK_DEADLOCK FALSE
