\* batch validation of recorded simplify() traces (env TRACE_FILE)
INIT TInit
NEXT TNext
VIEW TView
INVARIANT TypeOK
CHECK_DEADLOCK FALSE
