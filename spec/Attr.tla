-------------------------------- MODULE Attr --------------------------------
(* Property C13: variable metadata reports the declared attributes.

   Declarative side (the property): for every variable and every attribute
   a in {value, start, min, max, nominal, fixed}
       AttrOf(c, a, env) = the declared / modified attribute expression evaluated
                           (Eval.tla: Val) at the given parameter values,
                           broadcast over the variable's shape ("each" or scalar),
                         = the default if unspecified
                           (value NaN, start 0, min -inf, max +inf, nominal 0, fixed false),
   and Integer / Boolean variables keep their Python types.

   Operational side (what generator.py / model.py do):
     ExtractAttributes   _ast_symbols_to_variables: the representation stored on the
                         Variable object (python number with the coercion rules of
                         generator.py:142-154, python list, or an MX expression)
     BuildMetadata       Model.variable_metadata_function: every attribute as an MX
                         column (scalars repeated over the symbol), the IS-AFFINE test
                         (allowed operations + zero Hessian) and, if every expression of
                         the model is affine in the parameters, the REBUILD
                              A p + b,   A = Jacobian at p = 0,   b = value at p = 0
                         (model.py:1427-1445).  The Jacobian is modelled with dual numbers.
   Invariants (checked by TLC for every program of the family and every point):
     MetaAgrees     the operational value of every attribute element equals AttrOf
     TypesKept      python_type of Integer / Boolean variables and the python type of
                    their literal attributes
     AffineSound    the syntactic affinity test used by the model implies that the
                    rebuild is exact (sanity of the model itself)                      *)
EXTENDS Eval, Json, SequencesExt, IOUtils

CONSTANTS Tier

NaN  == <<2, 0>>        \* special values share den = 0 with Und; the harness decodes them
PInf == <<1, 0>>
NInf == <<-1, 0>>
ATTRS == <<"value", "min", "max", "start", "fixed", "nominal">>      \* CASADI_ATTRIBUTES, the column order
Default(a) == CASE a = "value" -> NaN [] a = "start" -> Zero [] a = "min" -> NInf [] a = "max" -> PInf
                [] a = "nominal" -> Zero [] a = "fixed" -> Zero

-----------------------------------------------------------------------------
(* declarative *)
Broadcast(v, dims) == IF IsErr(v) THEN v
                      ELSE IF v.sh = dims THEN v
                      ELSE IF IsScalar(v) THEN V(dims, [i \in 1..Numel(dims) |-> v.d[1]])
                      ELSE TypeErr
AttrOf(c, a, cx) ==
    IF HasMod(c, a) THEN Broadcast(Val(ModOf(c, a).e, cx), c.dims)
    ELSE V(c.dims, [i \in 1..Numel(c.dims) |-> Default(a)])

PyType(c) == CASE c.type = "Integer" -> "int" [] c.type = "Boolean" -> "bool" [] OTHER -> "float"

-----------------------------------------------------------------------------
(* operational: representation on the Variable object *)
LitKind(e) == e.n                                   \* "real" | "int" | "bool"
IsNegLit(e) == e.k = "un" /\ e.n = "-" /\ e.a[1].k = "lit"
IsNumLit(e) == e.k = "lit" \/ IsNegLit(e)
NumLitKind(e) == IF e.k = "lit" THEN e.n ELSE e.a[1].n
NumLitVal(e)  == IF e.k = "lit" THEN e.v ELSE RNeg(e.a[1].v)

Trunc(q) == IF q[1] >= 0 THEN RFloor(q) ELSE RCeil(q)          \* python int(float)
(* generator.py:147-154   isinstance(v, (float, int)) and not isinstance(v, python_type)  =>  python_type(v) *)
Coerce(vtype, kind, q) ==
    CASE vtype = "float" -> [ty |-> "float", v |-> q]                                  \* int and bool become float
      [] vtype = "int"   -> (IF kind = "real" THEN [ty |-> "int", v |-> Trunc(q)] ELSE [ty |-> kind, v |-> q])   \* bool is an int: kept
      [] vtype = "bool"  -> (IF kind = "bool" THEN [ty |-> "bool", v |-> q] ELSE [ty |-> "bool", v |-> Bool(~IsZero(q))])

Repr(c, a) ==
    IF ~HasMod(c, a) THEN [k |-> "default", v |-> Default(a), ty |-> (CASE a \in {"value", "min", "max"} -> "float" [] a = "fixed" -> "bool" [] OTHER -> "int")]
    ELSE LET e == ModOf(c, a).e
         IN  IF IsNumLit(e) THEN (LET cc == Coerce(PyType(c), NumLitKind(e), NumLitVal(e)) IN [k |-> "py", v |-> cc.v, ty |-> cc.ty])
             ELSE IF e.k = "arr" THEN [k |-> "list", e |-> e]
             ELSE [k |-> "mx", e |-> e]

(* dual numbers over the parameters: [v |-> value, d |-> [parameter element -> partial derivative]] *)
ParamElems(P) == Flatten([i \in DOMAIN P.comps |->
                    IF P.comps[i].prefix = "parameter" THEN [j \in 1..Numel(P.comps[i].dims) |-> <<P.comps[i].name, j>>] ELSE <<>>])
NPar(P) == Len(ParamElems(P))
DConst(q, n)  == [v |-> q, d |-> [j \in 1..n |-> Zero]]
DAdd(x, y) == [v |-> RAdd(x.v, y.v), d |-> [j \in DOMAIN x.d |-> RAdd(x.d[j], y.d[j])]]
DSub(x, y) == [v |-> RSub(x.v, y.v), d |-> [j \in DOMAIN x.d |-> RSub(x.d[j], y.d[j])]]
DMul(x, y) == [v |-> RMul(x.v, y.v), d |-> [j \in DOMAIN x.d |-> RAdd(RMul(x.d[j], y.v), RMul(x.v, y.d[j]))]]
DDiv(x, y) == [v |-> RDiv(x.v, y.v), d |-> [j \in DOMAIN x.d |-> RDiv(RSub(RMul(x.d[j], y.v), RMul(x.v, y.d[j])), RMul(y.v, y.v))]]
DNeg(x)    == [v |-> RNeg(x.v), d |-> [j \in DOMAIN x.d |-> RNeg(x.d[j])]]

(* element el of expression e as a dual number at p = 0 (only called for expressions that pass AffineOps) *)
RECURSIVE Dual(_, _, _), AffineOps(_, _), Deg(_, _)
ParamIndex(P, name, j) == CHOOSE i \in 1..NPar(P) : ParamElems(P)[i] = <<name, j>>
IsParam(P, name) == \E i \in DOMAIN P.comps : P.comps[i].name = name /\ P.comps[i].prefix = "parameter"
DeclDimsA(P, name) == P.comps[CompIndex(P, name)].dims
Dual(e, el, P) ==
    LET n == NPar(P) IN
    CASE e.k = "lit" -> DConst(e.v, n)
      [] e.k = "ref" -> (LET nel == Numel(DeclDimsA(P, e.n))
                             j == IF nel = 1 THEN 1 ELSE el
                         IN  [v |-> Zero, d |-> [i \in 1..n |-> IF i = ParamIndex(P, e.n, j) THEN One ELSE Zero]])
      [] e.k = "un"  -> DNeg(Dual(e.a[1], el, P))
      [] e.k = "bin" -> (CASE e.n \in {"+", ".+"} -> DAdd(Dual(e.a[1], el, P), Dual(e.a[2], el, P))
                           [] e.n \in {"-", ".-"} -> DSub(Dual(e.a[1], el, P), Dual(e.a[2], el, P))
                           [] e.n \in {"*", ".*"} -> DMul(Dual(e.a[1], el, P), Dual(e.a[2], el, P))
                           [] e.n \in {"/", "./"} -> DDiv(Dual(e.a[1], el, P), Dual(e.a[2], el, P)))
      [] e.k = "arr" -> Dual(e.a[el], 1, P)

(* "allowed_ops": only constants, inputs, + - * / and negation *)
AffineOps(e, P) ==
    CASE e.k = "lit" -> TRUE
      [] e.k = "ref" -> e.a = <<>> /\ IsParam(P, e.n)
      [] e.k = "un"  -> e.n = "-" /\ AffineOps(e.a[1], P)
      [] e.k = "bin" -> e.n \in {"+", "-", "*", "/", ".+", ".-", ".*", "./"} /\ AffineOps(e.a[1], P) /\ AffineOps(e.a[2], P)
      [] e.k = "arr" -> \A i \in DOMAIN e.a : AffineOps(e.a[i], P)
      [] OTHER -> FALSE
(* zero Hessian: polynomial degree <= 1 (a parameter-dependent denominator counts as degree 2) *)
Deg(e, P) ==
    CASE e.k = "lit" -> 0
      [] e.k = "ref" -> 1
      [] e.k = "un"  -> Deg(e.a[1], P)
      [] e.k = "bin" -> (IF e.n \in {"+", "-", ".+", ".-"} THEN (IF Deg(e.a[1], P) > Deg(e.a[2], P) THEN Deg(e.a[1], P) ELSE Deg(e.a[2], P))
                         ELSE IF e.n \in {"*", ".*"} THEN Deg(e.a[1], P) + Deg(e.a[2], P)
                         ELSE IF Deg(e.a[2], P) = 0 THEN Deg(e.a[1], P) ELSE 2)
      [] e.k = "arr" -> (IF \E i \in DOMAIN e.a : Deg(e.a[i], P) > 1 THEN 2 ELSE 1)
      [] OTHER -> 2
ExprAffine(e, P) == AffineOps(e, P) /\ Deg(e, P) <= 1

MxExprs(P) == {ModOf(P.comps[i], a).e : i \in DOMAIN P.comps, a \in {ATTRS[j] : j \in DOMAIN ATTRS}}
(* is_affine of variable_metadata_function: every MX attribute expression of the whole model *)
ModelAffine(P) == \A i \in DOMAIN P.comps : \A j \in DOMAIN ATTRS :
                     (HasMod(P.comps[i], ATTRS[j]) /\ Repr(P.comps[i], ATTRS[j]).k = "mx") => ExprAffine(ModOf(P.comps[i], ATTRS[j]).e, P)

(* parameter vector of point t, in the order of ParamElems *)
ParVec(P, env) == [i \in 1..NPar(P) |-> env[ParamElems(P)[i][1]].d[ParamElems(P)[i][2]]]

(* operational value of attribute a, element el (row-major) of component c, in environment env *)
MetaElem(c, a, el, P, env) ==
    LET r == Repr(c, a) IN
    CASE r.k = "default" -> r.v
      [] r.k = "py"      -> r.v
      [] r.k = "list"    -> Val(r.e, Cx(P, env, NoLoc)).d[el]
      [] r.k = "mx"      ->
            LET direct == Broadcast(Val(r.e, Cx(P, env, NoLoc)), c.dims).d[el]
            IN  IF NPar(P) > 0 /\ ModelAffine(P)
                THEN LET dn == Dual(r.e, el, P)                       \* A = J(0) row, b = f(0)
                         pv == ParVec(P, env)
                         RECURSIVE Dot(_)
                         Dot(i) == IF i = 0 THEN dn.v ELSE RAdd(RMul(dn.d[i], pv[i]), Dot(i - 1))
                     IN  Dot(NPar(P))
                ELSE direct

-----------------------------------------------------------------------------
(* family: one target variable "v" (type x shape x category) with a pattern of attribute modifications,
   in a model with parameters p, q (Real), n (Integer), w[2] (Real array) *)
I(i) == ILit(i)
Rp == Ref("p")
Rq == Ref("q")
Rw == Ref("w")
Ctx2 == << Param("p", RI(2)), Comp("q", "Real", "parameter", <<>>, <<>>), IParam("n", 3),
           Comp("w", "Real", "parameter", <<2>>, <<Mod("value", Arr(<<Lit(Q(3, 2)), Lit(Q(5, 2))>>))>>) >>

ScalarExprs(tier) ==      \* [e, tag]
    {<<Lit(Q(3, 2)), "lit">>, <<I(2), "lit-int">>, <<Un("-", I(2)), "lit-neg">>,
     <<Bin("+", Bin("*", I(2), Rp), I(1)), "affine">>, <<Un("-", Rp), "affine">>, <<Bin("+", Rp, Rq), "affine">>,
     <<Bin("*", I(3), Bin("-", Rp, Rq)), "affine">>, <<Bin("*", Rp, Lit(Q(1, 2))), "affine">>,
     <<Bin("*", Rp, Rq), "nonaffine">>, <<Bin("^", Rp, I(2)), "nonaffine">>, <<Call("abs", <<Rq>>), "nonaffine">>,
     <<Call("min", <<Rp, Rq>>), "nonaffine">>, <<Bin("*", Bin("+", Rp, I(1)), Bin("-", Rq, I(1))), "nonaffine">>,
     <<Bin("*", I(2), Ref("n")), "affine-int">>}
    \cup (IF tier = "quick" THEN {} ELSE
          {<<Bin("-", Bin("*", I(2), Rp), Bin("*", Lit(Q(1, 2)), Rq)), "affine">>, <<Bin("-", Rq, I(3)), "affine">>,
           <<Bin("*", Rq, Bin("*", Rq, Rp)), "nonaffine">>, <<Call("max", <<Rp, I(1)>>), "nonaffine">>,
           <<IfE(<<Bin(">", Rp, Rq), Rp, Rq>>), "nonaffine">>})
ArrayExprs(dims) ==       \* for v[2]: [e, each, tag]
    IF dims = <<2>>
    THEN {<<Arr(<<Lit(Q(1, 2)), I(3)>>), FALSE, "array-lit">>, <<I(4), TRUE, "each-lit">>, <<Rp, TRUE, "each-affine">>,
          <<Un("-", Rq), TRUE, "each-affine">>, <<Bin("*", Rp, Rq), TRUE, "each-nonaffine">>,
          <<Rw, FALSE, "array-affine">>, <<Bin("*", I(2), Rw), FALSE, "array-affine">>, <<Bin("*", Rw, Rp), FALSE, "array-nonaffine">>,
          <<Un("-", Rw), FALSE, "array-affine">>}
    ELSE {<<Arr(<<Arr(<<I(1), I(2)>>), Arr(<<I(3), I(4)>>)>>), FALSE, "matrix-lit">>, <<I(4), TRUE, "each-lit">>, <<Rp, TRUE, "each-affine">>,
          <<Bin("*", Rp, Rq), TRUE, "each-nonaffine">>}

Cats == {"alg", "state", "input", "parameter", "constant"}
PrefixOf(cat) == CASE cat = "input" -> "input" [] cat = "parameter" -> "parameter" [] cat = "constant" -> "constant" [] OTHER -> ""
Target(type, dims, cat, mods) == Comp("v", type, PrefixOf(cat), dims, mods)
EqsOf(cat, dims) == IF cat = "state" THEN <<Eq(Der(Ref("v")), IF dims = <<>> THEN I(1) ELSE Bin("*", I(2), Ref("v")))>> ELSE <<>>
AttrItem(type, dims, cat, mods, tags) ==
    [fam |-> "attr", prog |-> Prog(Ctx2 \o <<Target(type, dims, cat, mods)>>, EqsOf(cat, dims), <<>>, <<>>),
     extra |-> tags \cup {"type:" \o type, "cat:" \o cat, IF dims = <<>> THEN "scalar" ELSE "array"}]

NumAttrs == {"start", "min", "max", "nominal"}
AttrItems(tier) ==
    (* Real scalars: every attribute x every expression kind, per category (value only where it is a binding of a parameter/constant) *)
    {AttrItem("Real", <<>>, cat, <<Mod(a, et[1])>>, {et[2], "attr:" \o a}) :
        cat \in {"alg", "state", "input"}, a \in NumAttrs, et \in ScalarExprs(tier)}
    \cup {AttrItem("Real", <<>>, "parameter", <<Mod(a, et[1])>>, {et[2], "attr:" \o a}) : a \in {"value", "min", "max"}, et \in ScalarExprs(tier)}
    \cup {AttrItem("Real", <<>>, "constant", <<Mod("value", et[1])>>, {et[2], "attr:value"}) : et \in {x \in ScalarExprs(tier) : x[2] \in {"lit", "lit-int", "lit-neg"}}}
    (* two and three attributes together; fixed *)
    \cup {AttrItem("Real", <<>>, cat, <<Mod("min", Un("-", Rp)), Mod("max", et[1]), Mod("start", I(1)), Mod("fixed", BLit(b))>>, {et[2], "multi"}) :
            cat \in {"alg", "state", "input"}, et \in ScalarExprs(tier), b \in BOOLEAN}
    \cup {AttrItem("Real", <<>>, cat, <<>>, {"defaults"}) : cat \in Cats \ {"constant"}}
    (* Integer / Boolean variables *)
    \cup {AttrItem("Integer", <<>>, cat, <<Mod(a, e)>>, {"attr:" \o a, "int-literal"}) :
            cat \in {"alg", "input"}, a \in NumAttrs, e \in {I(2), Un("-", I(3)), I(0)}}
    \cup {AttrItem("Integer", <<>>, "parameter", <<Mod("value", e)>>, {"attr:value", "int-literal"}) : e \in {I(2), Un("-", I(3))}}
    \cup {AttrItem("Integer", <<>>, "alg", <<Mod("max", Bin("*", I(2), Ref("n"))), Mod("min", Un("-", Ref("n")))>>, {"affine-int"}),
          AttrItem("Integer", <<>>, "alg", <<Mod("start", I(1)), Mod("fixed", BLit(TRUE))>>, {"int-literal", "fixed"}),
          AttrItem("Integer", <<>>, "alg", <<>>, {"defaults"}),
          AttrItem("Boolean", <<>>, "alg", <<>>, {"defaults"}),
          AttrItem("Boolean", <<>>, "alg", <<Mod("start", BLit(TRUE))>>, {"bool-literal"}),
          AttrItem("Boolean", <<>>, "alg", <<Mod("start", BLit(FALSE)), Mod("fixed", BLit(TRUE))>>, {"bool-literal", "fixed"}),
          AttrItem("Boolean", <<>>, "input", <<Mod("start", BLit(TRUE))>>, {"bool-literal"}),
          AttrItem("Boolean", <<>>, "parameter", <<Mod("value", BLit(TRUE))>>, {"bool-literal"}),
          AttrItem("Boolean", <<>>, "parameter", <<Mod("value", BLit(FALSE))>>, {"bool-literal"})}
    (* arrays *)
    \cup {AttrItem("Real", dims, cat, <<[attr |-> a, each |-> et[2], e |-> et[1]]>>, {et[3], "attr:" \o a}) :
            dims \in {<<2>>, <<2, 2>>}, cat \in {"alg", "state", "input"}, a \in {"start", "max"}, et \in ArrayExprs(<<2>>) \cup ArrayExprs(<<2, 2>>)}
    \cup {AttrItem("Real", <<2>>, "parameter", <<[attr |-> "value", each |-> et[2], e |-> et[1]]>>, {et[3], "attr:value"}) :
            et \in {x \in ArrayExprs(<<2>>) : x[3] \in {"array-lit", "array-affine", "array-nonaffine"}}}
    \cup {AttrItem("Integer", <<2>>, "alg", <<Mod("start", Arr(<<I(1), I(2)>>))>>, {"array-lit", "int-literal"}),
          AttrItem("Boolean", <<2>>, "alg", <<Mod("start", Arr(<<BLit(TRUE), BLit(FALSE)>>))>>, {"array-lit", "bool-literal"}),
          AttrItem("Real", <<2>>, "alg", <<Mod("start", Arr(<<I(1), I(2)>>)), EachMod("min", Un("-", Rp)), Mod("max", Bin("*", I(2), Rw))>>, {"multi", "array-affine"})}

(* only well-shaped combinations: the attribute value must be a scalar or have the shape of the variable *)
ShapeOK(it) == LET P == it.prog
                   c == P.comps[Len(P.comps)]
                   cx == CxAt(P, 1)
               IN  \A j \in DOMAIN ATTRS : ~IsErr(AttrOf(c, ATTRS[j], cx))
Family == {it \in AttrItems(Tier) : ShapeOK(it)}

-----------------------------------------------------------------------------
(* machine *)
VARIABLES item, pc, reprs, meta, env
vars == <<item, pc, reprs, meta, env>>
P0 == item.prog
Pts == 1..NPts
NShards == IF "VF_NSHARDS" \in DOMAIN IOEnv THEN atoi(IOEnv.VF_NSHARDS) ELSE 1
ShardNo == IF "VF_SHARD" \in DOMAIN IOEnv THEN atoi(IOEnv.VF_SHARD) ELSE 0
Shard == IF NShards = 1 THEN Family
         ELSE LET its == SetToSeq(Family) IN {its[i] : i \in {j \in DOMAIN its : j % NShards = ShardNo}}

Init == /\ item \in Shard /\ pc = "extract" /\ reprs = <<>> /\ meta = <<>>
        /\ env = [t \in Pts |-> EnvAt(item.prog, t)]

(* exitClass -> _ast_symbols_to_variables for every component *)
ExtractAttributes ==
    /\ pc = "extract" /\ pc' = "metadata"
    /\ reprs' = [i \in DOMAIN P0.comps |-> [j \in DOMAIN ATTRS |->
                    LET r == Repr(P0.comps[i], ATTRS[j]) IN [k |-> r.k, ty |-> IF r.k \in {"py", "default"} THEN r.ty ELSE "n/a"]]]
    /\ UNCHANGED <<item, meta, env>>

(* Model.variable_metadata_function evaluated at the parameter vector of every point *)
BuildMetadata ==
    /\ pc = "metadata" /\ pc' = "finish"
    /\ meta' = [t \in Pts |-> [i \in DOMAIN P0.comps |-> [j \in DOMAIN ATTRS |->
                    [el \in 1..Numel(P0.comps[i].dims) |-> MetaElem(P0.comps[i], ATTRS[j], el, P0, env[t])]]]]
    /\ UNCHANGED <<item, reprs, env>>

DeclAt(t) == [i \in DOMAIN P0.comps |-> [j \in DOMAIN ATTRS |-> AttrOf(P0.comps[i], ATTRS[j], Cx(P0, env[t], NoLoc)).d]]
PtDefined(t) == \A i \in DOMAIN P0.comps : \A j \in DOMAIN ATTRS : \A el \in DOMAIN DeclAt(t)[i][j] : DeclAt(t)[i][j][el] # Und
DefinedPts == SelectSeq(<<1, 2, 3, 4>>, PtDefined)

ExpectedTypes ==       \* python types the property fixes: Integer and Boolean variables, their literal attributes
    [i \in DOMAIN P0.comps |->
        LET c == P0.comps[i] IN
        [pytype |-> PyType(c),
         attrs  |-> [j \in DOMAIN ATTRS |->
                       IF c.type \in {"Integer", "Boolean"} /\ HasMod(c, ATTRS[j]) /\ IsNumLit(ModOf(c, ATTRS[j]).e) /\ c.dims = <<>>
                       THEN (IF NumLitKind(ModOf(c, ATTRS[j]).e) = "bool" THEN "bool" ELSE PyType(c))
                       ELSE "any"]]]

Finish ==
    /\ pc = "finish" /\ pc' = "done" /\ UNCHANGED <<item, reprs, meta, env>>
    /\ PrintT(<<"PROG", ToJson([prog |-> P0, tags |-> {"fam:attr"} \cup item.extra,
                                names |-> [i \in DOMAIN P0.comps |-> P0.comps[i].name],
                                attrs |-> ATTRS, types |-> ExpectedTypes, affine |-> ModelAffine(P0),
                                pts |-> [k \in DOMAIN DefinedPts |-> [t |-> DefinedPts[k], env |-> env[DefinedPts[k]],
                                                                      expect |-> DeclAt(DefinedPts[k])]]])>>)
Next == ExtractAttributes \/ BuildMetadata \/ Finish

-----------------------------------------------------------------------------
MetaAgrees == pc \in {"finish", "done"} =>
    \A t \in Pts : PtDefined(t) => \A i \in DOMAIN P0.comps : \A j \in DOMAIN ATTRS : meta[t][i][j] = DeclAt(t)[i][j]

TypesKept == pc # "extract" =>
    \A i \in DOMAIN P0.comps : \A j \in DOMAIN ATTRS :
        ExpectedTypes[i].attrs[j] # "any" => reprs[i][j].ty = ExpectedTypes[i].attrs[j]

WellShaped == \A t \in Pts : \A i \in DOMAIN P0.comps : \A j \in DOMAIN ATTRS : ~IsErr(AttrOf(P0.comps[i], ATTRS[j], Cx(P0, env[t], NoLoc)))

(* sanity of the model: an expression that passes the affinity test is reproduced exactly by A p + b *)
AffineSound == pc = "done" =>
    \A i \in DOMAIN P0.comps : \A j \in DOMAIN ATTRS :
        LET c == P0.comps[i] IN
        (HasMod(c, ATTRS[j]) /\ Repr(c, ATTRS[j]).k = "mx" /\ ExprAffine(ModOf(c, ATTRS[j]).e, P0)) =>
            \A t \in Pts : \A el \in 1..Numel(c.dims) :
                LET dn == Dual(ModOf(c, ATTRS[j]).e, el, P0)
                    pv == ParVec(P0, env[t])
                    RECURSIVE Dot(_)
                    Dot(m) == IF m = 0 THEN dn.v ELSE RAdd(RMul(dn.d[m], pv[m]), Dot(m - 1))
                IN  Dot(NPar(P0)) = Broadcast(Val(ModOf(c, ATTRS[j]).e, Cx(P0, env[t], NoLoc)), c.dims).d[el]
=============================================================================
