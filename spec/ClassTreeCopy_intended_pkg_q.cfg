\* intended: pointer semantics = value semantics, independence, parents closed; all histories <= 3 (quick tier) over <= 3 trees
CONSTANTS DeepCopyRebindsParents = TRUE CopyHookBoundToCopy = TRUE FlattenCopiesTop = FALSE
          Lib = "pkg" Universe = "pfull" MaxTrees = 3 MaxOps = 3
INIT Init
NEXT Next
VIEW ViewFull
INVARIANT PointerSemanticsIsValueSemantics
INVARIANT ParentClosed
INVARIANT NoRaise
PROPERTY Independence
PROPERTY CopyFaithful
CHECK_DEADLOCK FALSE
