\* mutation: a constant MX attribute is classified NOT_MX - RoundTrip must FAIL
CONSTANTS XKinds = {"lit"}
          YKinds = {"none"}
          Aliases = {"none"}
          Delays = {"none"}
          Opts = {"base","rpv"}
          FKinds = {"pdep"}
          Typed = {TRUE}
          Strs = {FALSE}
          Outs = {TRUE}
          SwapDepClasses = FALSE
          ForgetOutputs = FALSE
          DurDepsOffByOne = FALSE
          ConstMXNotMX = TRUE
          TruthyOptions = FALSE
INIT Init
NEXT Next
INVARIANT RoundTrip
INVARIANT NoMXPickled
INVARIANT SwitchedIsFresh
CHECK_DEADLOCK FALSE
