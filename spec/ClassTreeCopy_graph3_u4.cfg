\* intended state graph, quotient by the value state, 3 trees, edit universe u4 (remove / re-add Base = the end of the chain Top extends Mid extends Base; Mid v; live flatten of Top): every transition logged (TR)
CONSTANTS DeepCopyRebindsParents = TRUE CopyHookBoundToCopy = TRUE FlattenCopiesTop = FALSE
          Lib = "flat" Universe = "u4" MaxTrees = 3 MaxOps = 1000000
INIT Init
NEXT Next
VIEW ViewVal
ACTION_CONSTRAINT Log
INVARIANT PointerSemanticsIsValueSemantics
CHECK_DEADLOCK FALSE
