\* intended state graph (one state per library, every request a self loop); every transition logged (TR)
CONSTANTS CopyOnLookup = TRUE SympyCopies = TRUE LibIds = {1,2,3,4,5,6,7,8,9,10,11} MaxReq = 1000000
          Backends = {"flatten","casadi","sympy","xml"}
INIT Init
NEXT Next
VIEW ViewQuot
ACTION_CONSTRAINT Log
INVARIANT ResultIsFunctionOfClass
CHECK_DEADLOCK FALSE
