\* intended state graph, quotient by the value state, 3 trees, small edit universe: every transition logged (TR)
CONSTANTS DeepCopyRebindsParents = TRUE CopyHookBoundToCopy = TRUE FlattenCopiesTop = FALSE
          Universe = "small" MaxTrees = 3 MaxOps = 1000000
INIT Init
NEXT Next
VIEW ViewVal
ACTION_CONSTRAINT Log
INVARIANT PointerSemanticsIsValueSemantics
CHECK_DEADLOCK FALSE
