\* the switches set as the pinned code behaves: TLC is EXPECTED to report a violation (DESIGN 2.4)
CONSTANTS
  Switches <- AsBuilt
  Families = {"sections", "dup"}
  MaxSections = 2
INIT Init
NEXT Next
VIEW View
INVARIANT OperationalIsDeclarative
INVARIANT NoSharedObjects
INVARIANT NoSharedSubLists
INVARIANT OrdersIncrease
INVARIANT HeapWellFormed
INVARIANT NamesUnique
CHECK_DEADLOCK FALSE
