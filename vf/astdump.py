"""Structural dump of a pymoca AST (type names, field order, dict order), ignoring the
back references that Node.to_json also ignores.  Two trees are 'structurally identical'
iff their dumps are equal."""
from collections import OrderedDict
from enum import Enum

SKIP = ("parent", "scope", "__deepcopy__")


def dump(x, _depth=0):
    from pymoca import ast
    if _depth > 200:
        return "<deep>"
    if isinstance(x, ast.Node):
        return (type(x).__name__, tuple((k, dump(v, _depth + 1)) for k, v in x.__dict__.items() if k not in SKIP))
    if isinstance(x, (OrderedDict, dict)):
        return ("dict", tuple((str(k), dump(v, _depth + 1)) for k, v in x.items()))
    if isinstance(x, (list, tuple)):
        return ("list", tuple(dump(v, _depth + 1) for v in x))
    if isinstance(x, (set, frozenset)):
        return ("set", tuple(sorted(repr(dump(v, _depth + 1)) for v in x)))
    if isinstance(x, Enum):
        return ("enum", str(x))
    if isinstance(x, float) and x != x:
        return ("float", "nan")
    if isinstance(x, (int, float, str, bool, type(None))):
        return (type(x).__name__, x)
    return ("obj", type(x).__name__, repr(x))


def first_diff(a, b, path="root"):
    """human readable location of the first difference between two dumps"""
    if a == b:
        return None
    if type(a) is not type(b) or not isinstance(a, tuple) or len(a) != len(b) or (a and b and a[0] != b[0] and not isinstance(a[0], tuple)):
        return "%s: %s != %s" % (path, str(a)[:120], str(b)[:120])
    for i, (x, y) in enumerate(zip(a, b)):
        if x != y:
            if isinstance(x, tuple) and isinstance(y, tuple):
                label = x[0] if x and isinstance(x[0], str) else str(i)
                return first_diff(x, y, path + "/" + str(label))
            return "%s[%d]: %r != %r" % (path, i, x, y)
    return "%s: differs" % path
