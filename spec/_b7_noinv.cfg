CONSTANTS Family = "base" OptMode = "none" ConstValuesResolved = TRUE OldAliasSignStripped = TRUE PrintProg = FALSE PrintFin = FALSE
INIT Init
NEXT Next
VIEW View
CHECK_DEADLOCK FALSE
