\* intended behaviour (flatten copies the requested class): the property must hold for all histories <= 3
CONSTANTS CopyOnLookup = TRUE SympyCopies = TRUE LibIds = {1,2,3,4,5,6,7,8,9,10,11} MaxReq = 3
          Backends = {"flatten","casadi","sympy","xml"}
INIT Init
NEXT Next
INVARIANT ResultIsFunctionOfClass
INVARIANT SeenIsConflict
PROPERTY SourceUnchanged
CHECK_DEADLOCK FALSE
