\* C21 as built, codegen mode: EXPECTED to violate ReturnsCorrect (crash between the libraries and the cache file)
CONSTANTS Procs = {"p1","p2"}
          DiffOpts = TRUE
          Codegen = TRUE
          N = 2
          NL = 2
          MaxCrashes = 1
          Inits = {"o1"}
          Sequential = TRUE
          AtomicWrite = FALSE
          CatchUnpickle = FALSE
          UniqueLibs = FALSE
          CatchLibError = FALSE
INIT Init
NEXT Next
INVARIANT TypeOK
INVARIANT ReturnsCorrect
CHECK_DEADLOCK FALSE
