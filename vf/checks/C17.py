"""C17 - Alias relation is a signed equivalence under any operation history.

Spec: spec/AliasRelation.tla (+ AliasRelationTrace.tla)
Binding A: every transition of the TLC state graph (3 names, 2 relations; quotient by
           relation equality) replayed on real AliasRelation objects as a transition tour,
           all histories to depth d, and random walks; after every step every observable the
           property names is compared with the spec state.
Binding B: free-running random histories on a 5-name universe recorded from the real objects
           and validated in one TLC run by AliasRelationTrace.
"""
import json
import os
import random
import tempfile

from vf import tlc, graph
from vf.core import MachineryError, exc_record

META = {
    "category": "model_checking",
    "technique": "TLA+ spec (AliasRelation.tla) model-checked by TLC; every transition of the state graph replayed on the real class; recorded traces validated by AliasRelationTrace.tla",
    "text": "TLC checks that the operational add/remove/copy definition equals the declarative signed closure for all histories in the bound (3 names, 2 relations, full pair history to depth 4) and enumerates the complete quotient state graph; every one of its transitions is replayed against alias_relation.AliasRelation with aliases()/canonical_signed()/iteration/canonical_variables compared after each step; longer random histories over 5 names are recorded from the real class and validated by the trace spec.",
    "note": "Trusted: TLC, the ~60-line adapter mapping signed names to '-x' strings. The canonical choice is not prescribed, only its consistency. Bounds: 3 (quick) / 4 (thorough) names exhaustively, 5 names in recorded traces.",
    "design_ref": "DESIGN.md section 3, C17",
}


def sname(x):
    return ("-" if x[1] < 0 else "") + x[0]


def unsname(s):
    return [s[1:], -1] if s.startswith("-") else [s, 1]


def blocks_of(relstate):
    """spec relation (list of blocks, each list of [n,s]) -> set of frozensets of strings"""
    return {frozenset(sname(x) for x in b) for b in relstate}


class Adapter:
    def __init__(self, names):
        from pymoca.backends.casadi.alias_relation import AliasRelation
        self.cls = AliasRelation
        self.names = names
        self.signed = [n for n in names] + ["-" + n for n in names]
        self.rels = [AliasRelation()]

    def apply(self, act):
        a = act["act"]
        r = self.rels[act["r"] - 1]
        if a == "add":
            r.add(sname(act["x"]), sname(act["y"]))
        elif a == "remove":
            member = sname(act["block"][0])
            canon, _ = r.canonical_signed(member)
            r.remove(canon)
        elif a == "copy":
            self.rels.append(r.copy())
        else:
            raise MachineryError("unknown action %r" % (act,))

    def observed_blocks(self, i):
        """non-trivial classes as the real object reports them through aliases()"""
        r = self.rels[i]
        out = set()
        for x in self.signed:
            b = frozenset(r.aliases(x))
            if len(b) > 1:
                out.add(b)
        return out

    def check(self, spec_rels):
        """compare every observable named by the property; returns list of (observable, detail)"""
        bad = []
        if len(spec_rels) != len(self.rels):
            raise MachineryError("relation count differs")
        for i, srel in enumerate(spec_rels):
            r = self.rels[i]
            want = blocks_of(srel)
            member = {}
            for b in want:
                for x in b:
                    member[x] = b
            # aliases(): the whole signed class
            for x in self.signed:
                got = set(r.aliases(x))
                exp = set(member.get(x, {x}))
                if got != exp:
                    bad.append(("aliases", "rel %d aliases(%s)=%s expected %s" % (i + 1, x, sorted(got), sorted(exp))))
            # canonical_signed(): same canonical name for every member, consistent sign
            canon_of_class = {}
            for x in self.signed:
                c, s = r.canonical_signed(x)
                cls = member.get(x, frozenset([x]))
                if s not in (1, -1) or c.startswith("-"):
                    bad.append(("canonical_signed", "rel %d canonical_signed(%s)=%r malformed" % (i + 1, x, (c, s))))
                    continue
                signed_c = c if s == 1 else "-" + c
                if signed_c not in cls:
                    bad.append(("canonical_signed", "rel %d canonical_signed(%s)=%r: %s not in class %s" % (
                        i + 1, x, (c, s), signed_c, sorted(cls))))
                key = frozenset(u.lstrip("-") for u in cls)
                if canon_of_class.setdefault(key, c) != c:
                    bad.append(("canonical_signed", "rel %d class %s has two canonical names %s/%s" % (
                        i + 1, sorted(cls), canon_of_class[key], c)))
                # consistent sign: x and -x must get opposite signs
                c2, s2 = r.canonical_signed(x[1:] if x.startswith("-") else "-" + x)
                if c2 != c or s2 != -s:
                    bad.append(("canonical_signed", "rel %d sign of %s and its negation inconsistent: %r %r" % (
                        i + 1, x, (c, s), (c2, s2))))
            # iteration: exactly one entry per non-trivial class (a class and its mirror image count once)
            classes = {frozenset(u.lstrip("-") for u in b) for b in want}
            entries = list(r)
            got_classes = []
            for c, al in entries:
                full = set(al) | {c}
                exp = set(member.get(c, {c}))
                if full != exp or c in al:
                    bad.append(("iteration", "rel %d iter entry (%s,%s) expected class %s" % (i + 1, c, sorted(al), sorted(exp))))
                got_classes.append(frozenset(u.lstrip("-") for u in full))
            if sorted(map(sorted, got_classes)) != sorted(map(sorted, classes)):
                bad.append(("iteration", "rel %d iteration yields %s expected one entry per class of %s" % (
                    i + 1, sorted(map(sorted, got_classes)), sorted(map(sorted, classes)))))
            cv = set(r.canonical_variables)
            if cv != {c for c, _ in entries} or len(cv) != len(classes):
                bad.append(("canonical_variables", "rel %d canonical_variables=%s for classes %s" % (i + 1, sorted(cv), sorted(map(sorted, classes)))))
        return bad


def run_history(names, acts, dsts=None):
    """Replay a list of spec actions on real objects.  dsts[k] = spec state after step k
    (if None the expected state is recomputed by a tiny python mirror - used only for --replay)."""
    ad = Adapter(names)
    recs = []
    for k, act in enumerate(acts):
        try:
            ad.apply(act)
        except MachineryError:
            raise
        except Exception as e:
            r = exc_record(e)
            r.update(observable="exception", tags=[act["act"]], step=k)
            recs.append(r)
            return recs
        bad = ad.check(dsts[k]["rel"])
        if bad:
            obs = sorted({b[0] for b in bad})
            recs.append({"observable": "+".join(obs), "tags": [act["act"]], "exception_type": None,
                         "detail": "after step %d %s: %s" % (k, json.dumps(act), "; ".join(b[1] for b in bad[:4])), "step": k})
            return recs
    return recs


def record_traces(names, n, length, seed):
    """binding B driver: random legal histories on the real class, recording what it reports."""
    rng = random.Random(seed)
    signed = [[n_, s] for n_ in names for s in (1, -1)]
    traces = []
    for _ in range(n):
        ad = Adapter(names)
        ev = []
        traces.append(ev)
        try:
            _drive(ad, ev, rng, signed, length)
        except MachineryError:
            raise
        except Exception as e:  # the real class raised on a legal history
            ev.append({"ev": "exception", "exc": exc_record(e)})
    return traces


def _drive(ad, ev, rng, signed, length):
    if True:
        for _ in range(length):
            i = rng.randrange(len(ad.rels))
            r = ad.rels[i]
            k = rng.random()
            if k < 0.12 and len(ad.rels) < 4:
                ad.apply({"act": "copy", "r": i + 1})
                ev.append({"ev": "copy", "r": i + 1, "blocks": [[unsname(x) for x in sorted(b)] for b in ad.observed_blocks(len(ad.rels) - 1)]})
                continue
            if k < 0.3:
                obs = sorted(map(sorted, ad.observed_blocks(i)))
                if obs:
                    b = rng.choice(obs)
                    ad.apply({"act": "remove", "r": i + 1, "block": [unsname(x) for x in b]})
                    ev.append({"ev": "remove", "r": i + 1, "block": [unsname(x) for x in b],
                               "blocks": [[unsname(x) for x in sorted(bb)] for bb in ad.observed_blocks(i)]})
                    continue
            x, y = rng.choice(signed), rng.choice(signed)
            # the property only speaks about histories that never relate a variable to its own negation:
            # legality is decided from what aliases() reports BEFORE the call
            m = set(r.aliases(sname(x))) | set(r.aliases(sname(y)))
            if any((u[1:] if u.startswith("-") else "-" + u) in m for u in m):
                continue
            ad.apply({"act": "add", "r": i + 1, "x": x, "y": y})
            ev.append({"ev": "add", "r": i + 1, "x": x, "y": y,
                       "blocks": [[unsname(u) for u in sorted(bb)] for bb in ad.observed_blocks(i)]})


def validate_traces(ctx, traces, what):
    fd, path = tempfile.mkstemp(suffix=".json", prefix="c17tr_")
    with os.fdopen(fd, "w") as f:
        json.dump(traces, f)
    try:
        res = tlc.run("AliasRelationTrace", "AliasRelationTrace.cfg", workers=1, env={"TRACE_FILE": path}, deadlock=False)
    finally:
        os.unlink(path)
    ctx.add_tlc(res, what)
    accepted = not res.violated
    at = res.tr("AT")
    last = at[-1] if at else {"tid": 1, "l": 1}
    return accepted, last


def run(ctx):
    thorough = ctx.tier == "thorough"
    # 1. the spec satisfies the property (operational = declarative closure), full history state
    r = tlc.run("AliasRelation", "AliasRelation_closure.cfg", workers=16)
    ctx.add_tlc(r, "closure: AddTo/Remove = signed closure of surviving pairs, CopyIndependent")
    if r.violated:
        raise MachineryError("spec AliasRelation violates its own invariants: %s" % r.violated)
    # 2. complete state graph (quotient by relation equality) with TR-log
    cfg = "AliasRelation_thorough.cfg" if thorough else "AliasRelation_graph.cfg"
    names = ["a", "b", "c", "d"] if thorough else ["a", "b", "c"]
    r = tlc.run("AliasRelation", cfg, workers=1, timeout=1800)
    ctx.add_tlc(r, "state graph with TR-log")
    if r.violated:
        raise MachineryError("spec AliasRelation violates WellFormed")
    g = graph.Graph(r.tr(), init=[{"rel": [[]]}])
    paths, covered = g.tour(max_len=30)
    n_tour = len(paths)
    extra = g.all_paths(3 if not thorough else 3, limit=30000)
    walks = g.random_walks(300 if not thorough else 3000, 40, ctx.seed + 17)
    acts_cov = {}
    steps_total = 0
    for kind, plist in (("tour", paths), ("depth3", extra), ("walk", walks)):
        for p in plist:
            st = g.steps(p)
            acts = [s[1] for s in st]
            dsts = [s[2] for s in st]
            recs = run_history(names, acts, dsts)
            ctx.traces += 1
            steps_total += len(acts)
            for a in acts:
                acts_cov[a["act"]] = acts_cov.get(a["act"], 0) + 1
            for rec in recs:
                ctx.violation(rec, {"names": names, "acts": acts[:rec["step"] + 1], "dsts": dsts[:rec["step"] + 1]})
            if kind == "tour":
                ctx.sample({"kind": kind, "history": acts[:6], "final_spec_state": dsts[min(5, len(dsts) - 1)]}, limit=2)
    if len(covered) != g.n_edges():
        raise MachineryError("tour covered %d of %d transitions" % (len(covered), g.n_edges()))
    for a in ("add", "remove", "copy"):
        if not acts_cov.get(a):
            raise MachineryError("vacuous: action %s never replayed" % a)
    # 3. binding B: recorded random traces on 5 names
    tnames = ["a", "b", "c", "d", "e"]
    traces = record_traces(tnames, 200 if not thorough else 3000, 40, ctx.seed)
    for t in traces:
        if t and t[-1]["ev"] == "exception":
            r = dict(t[-1]["exc"], observable="exception", tags=["recorded-history"])
            ctx.violation(r, {"names": tnames, "trace": t})
    traces = [t for t in traces if not (t and t[-1]["ev"] == "exception")]
    ok, last = validate_traces(ctx, traces, "trace validation of %d recorded histories" % len(traces))
    ctx.traces += len(traces)
    if not ok:
        tid, l = last["tid"], last["l"]
        tr = traces[tid - 1] if tid <= len(traces) else []
        ev = tr[l - 1] if l - 1 < len(tr) else None
        ctx.violation({"observable": "recorded-trace-rejected", "tags": [ev["ev"] if ev else "end"], "exception_type": None,
                       "detail": "AliasRelationTrace rejects recorded trace %d at event %d: %s" % (tid, l, json.dumps(ev))},
                      {"names": tnames, "trace": tr[:l]})
    ctx.sample({"kind": "recorded-trace", "events": traces[0][:4]}, limit=4)
    # 4. binding self-test: a corrupted recorded field must be rejected
    bad = json.loads(json.dumps(traces[:3]))
    for t in bad:
        for e in t:
            if e["ev"] == "add" and e["blocks"]:
                e["blocks"] = e["blocks"][:-1]
                break
    ok2, _ = validate_traces(ctx, bad, "binding self-test (corrupted trace must be rejected)")
    if ok2:
        raise MachineryError("trace spec accepted a corrupted trace - binding is vacuous")
    ctx.extra["per_action_replayed"] = acts_cov
    ctx.extra["graph"] = {"states": g.n_states(), "transitions": g.n_edges(), "tour_paths": n_tour,
                          "depth3_paths": len(extra), "random_walks": len(walks), "replayed_steps": steps_total}
    ctx.assumptions += ["histories never relate a variable to its own negation (as the property states)",
                        "remove() is driven with the canonical name the implementation reports for the chosen class"]
    return {"exhaustive": True}


def reexecute(names, trace):
    """re-run the operations of a recorded trace on fresh real objects, re-recording what they report"""
    ad = Adapter(names)
    out = []
    for e in trace:
        if e["ev"] == "exception":
            break
        try:
            if e["ev"] == "copy":
                ad.apply({"act": "copy", "r": e["r"]})
                i = len(ad.rels) - 1
            elif e["ev"] == "remove":
                ad.apply({"act": "remove", "r": e["r"], "block": e["block"]})
                i = e["r"] - 1
            else:
                ad.apply({"act": "add", "r": e["r"], "x": e["x"], "y": e["y"]})
                i = e["r"] - 1
        except MachineryError:
            raise
        except Exception as ex:
            return out, dict(exc_record(ex), observable="exception", tags=["recorded-history"])
        out.append(dict(e, blocks=[[unsname(u) for u in sorted(bb)] for bb in ad.observed_blocks(i)]))
    return out, None


def replay(ctx, sc):
    if "acts" in sc:
        return run_history(sc["names"], sc["acts"], sc["dsts"])
    trace, exc = reexecute(sc["names"], sc["trace"])
    if exc:
        return [exc]
    ok, last = validate_traces(ctx, [trace], "replay of a recorded trace")
    if not ok:
        return [{"observable": "recorded-trace-rejected", "tags": [trace[-1]["ev"]], "exception_type": None,
                 "detail": "rejected at %s" % last}]
    return []
